package sim

import (
	"fmt"
	"io"
	"math/big"

	"github.com/bnb-chain/tss-lib/v2/common"
	ecdsakeygen "github.com/bnb-chain/tss-lib/v2/ecdsa/keygen"
	ecdsaresharing "github.com/bnb-chain/tss-lib/v2/ecdsa/resharing"
	ecdsasigning "github.com/bnb-chain/tss-lib/v2/ecdsa/signing"
	eddsakeygen "github.com/bnb-chain/tss-lib/v2/eddsa/keygen"
	eddsaresharing "github.com/bnb-chain/tss-lib/v2/eddsa/resharing"
	eddsasigning "github.com/bnb-chain/tss-lib/v2/eddsa/signing"
	"github.com/bnb-chain/tss-lib/v2/tss"
)

const chanCap = 8192

// Concurrency is handed to Parameters.SetConcurrency for every party the builders create.
var Concurrency = 4

// ParamHook, when set, is applied to the parameters of every party the builders create
// (used to switch the optional-proof flags individually).
var ParamHook func(p *tss.Parameters)

// MakePIDs builds sorted party ids from integer keys (given in any order).
func MakePIDs(prefix string, keys []*big.Int) tss.SortedPartyIDs {
	un := make(tss.UnSortedPartyIDs, len(keys))
	for i, k := range keys {
		un[i] = tss.NewPartyID(fmt.Sprintf("%s%s", prefix, k.Text(16)), fmt.Sprintf("%s[%d]", prefix, i), k)
	}
	return tss.SortPartyIDs(un)
}

func drain[T any](ch chan T) func() []any {
	return func() []any {
		var out []any
		for {
			select {
			case v := <-ch:
				out = append(out, v)
			default:
				return out
			}
		}
	}
}

func newNode(name, group string, pid *tss.PartyID) *Node {
	return &Node{Name: name, Group: group, PID: pid, Out: make(chan tss.Message, chanCap)}
}

// ---- ECDSA keygen

func ECDSAKeygen(seed int64, keys []*big.Int, t int, pre []ecdsakeygen.LocalPreParams) *World {
	w := NewWorld("ecdsa-keygen", seed)
	pids := MakePIDs("K", keys)
	ctx := tss.NewPeerContext(pids)
	for i, pid := range pids {
		n := newNode(fmt.Sprintf("P%d", i), "all", pid)
		params := tss.NewParameters(tss.S256(), ctx, pid, len(pids), t)
		params.SetConcurrency(Concurrency)
		if ParamHook != nil {
			ParamHook(params)
		}
		end := make(chan *ecdsakeygen.LocalPartySaveData, 16)
		n.Party = ecdsakeygen.NewLocalParty(params, n.Out, end, pre[i])
		n.DrainEnd = drain(end)
		w.AddNode(n)
	}
	return w
}

// ---- ECDSA signing

type SignOpts struct {
	FullBytesLen int // 0 = absent
	KDD          *big.Int
	Shuffle      bool
	// PartyCount, when > 0, is passed to tss.NewParameters instead of the number of signers (an application that reuses
	// the committee size of the key for its signing parameters)
	PartyCount int
	// Rand, when set, gives party i its randomness source (Parameters.SetRand): used to make the nonce reproducible
	Rand func(i int) io.Reader
	// PartialKeyRand, when set, is handed to Parameters.SetPartialKeyRand (a keygen knob; signing must not draw from it)
	PartialKeyRand func(i int) io.Reader
	// CtxCache, when non-nil, makes sessions with the same signer keys share one *tss.PeerContext (and its party ids), as
	// an application does that builds the quorum object once and signs many times with it
	CtxCache map[string]*tss.PeerContext
}

func peerCtxFor(o SignOpts, pids tss.SortedPartyIDs) (*tss.PeerContext, tss.SortedPartyIDs) {
	if o.CtxCache == nil {
		return tss.NewPeerContext(pids), pids
	}
	k := ""
	for _, p := range pids {
		k += p.KeyInt().Text(16) + ","
	}
	if c, ok := o.CtxCache[k]; ok {
		return c, c.IDs()
	}
	c := tss.NewPeerContext(pids)
	o.CtxCache[k] = c
	return c, pids
}

// pidsForKeys builds the signer party ids from the share ids stored in the key data, optionally shuffled before sorting.
func pidsForShareIDs(ids []*big.Int, w *World, shuffle bool) tss.SortedPartyIDs {
	ks := make([]*big.Int, len(ids))
	copy(ks, ids)
	if shuffle {
		w.Rng.Shuffle(len(ks), func(i, j int) { ks[i], ks[j] = ks[j], ks[i] })
	}
	return MakePIDs("S", ks)
}

func ECDSASigning(seed int64, keys []ecdsakeygen.LocalPartySaveData, t int, msg *big.Int, o SignOpts) *World {
	w := NewWorld("ecdsa-signing", seed)
	ids := make([]*big.Int, len(keys))
	for i := range keys {
		ids[i] = keys[i].ShareID
	}
	pids := pidsForShareIDs(ids, w, o.Shuffle)
	ctx, pids := peerCtxFor(o, pids)
	for i, pid := range pids {
		var key ecdsakeygen.LocalPartySaveData
		for k := range keys {
			if keys[k].ShareID.Cmp(pid.KeyInt()) == 0 {
				key = keys[k]
			}
		}
		n := newNode(fmt.Sprintf("P%d", i), "all", pid)
		params := tss.NewParameters(tss.S256(), ctx, pid, signPartyCount(o, len(pids)), t)
		params.SetConcurrency(Concurrency)
		if o.Rand != nil {
			params.SetRand(o.Rand(i))
		}
		if o.PartialKeyRand != nil {
			params.SetPartialKeyRand(o.PartialKeyRand(i))
		}
		if ParamHook != nil {
			ParamHook(params)
		}
		end := make(chan *common.SignatureData, 16)
		var fb []int
		if o.FullBytesLen > 0 {
			fb = []int{o.FullBytesLen}
		}
		if o.KDD != nil {
			n.Party = ecdsasigning.NewLocalPartyWithKDD(msg, params, key, o.KDD, n.Out, end, fb...)
		} else {
			n.Party = ecdsasigning.NewLocalParty(msg, params, key, n.Out, end, fb...)
		}
		n.DrainEnd = drain(end)
		w.AddNode(n)
	}
	return w
}

// ---- ECDSA resharing

type ReshareOpts struct {
	NoProofs bool
	OldN     int  // party count of the original key (informational parameter of NewReSharingParameters)
	NewFirst bool // queue the Start events of the new committee before the old one
	// PreOverride replaces the pre-parameters of new member i (a deviating member bringing its own parameters)
	PreOverride map[int]ecdsakeygen.LocalPreParams
}

func ECDSAResharing(seed int64, oldKeys []ecdsakeygen.LocalPartySaveData, t int, newIDs []*big.Int, newT int, pre []ecdsakeygen.LocalPreParams, o ReshareOpts) *World {
	w := NewWorld("ecdsa-resharing", seed)
	ids := make([]*big.Int, len(oldKeys))
	for i := range oldKeys {
		ids[i] = oldKeys[i].ShareID
	}
	oldP := MakePIDs("O", ids)
	newP := MakePIDs("N", newIDs)
	octx, nctx := tss.NewPeerContext(oldP), tss.NewPeerContext(newP)
	oldN := o.OldN
	if oldN == 0 {
		oldN = len(oldKeys)
	}
	mkOld := func() {
		for i, pid := range oldP {
			var key ecdsakeygen.LocalPartySaveData
			for k := range oldKeys {
				if oldKeys[k].ShareID.Cmp(pid.KeyInt()) == 0 {
					key = oldKeys[k]
				}
			}
			n := newNode(fmt.Sprintf("O%d", i), "old", pid)
			params := tss.NewReSharingParameters(tss.S256(), octx, nctx, pid, oldN, t, len(newP), newT)
			params.SetConcurrency(Concurrency)
			if ParamHook != nil {
				ParamHook(params.Parameters)
			}
			if o.NoProofs {
				params.SetNoProofMod()
				params.SetNoProofFac()
			}
			end := make(chan *ecdsakeygen.LocalPartySaveData, 16)
			n.Party = ecdsaresharing.NewLocalParty(params, key, n.Out, end)
			n.DrainEnd = drain(end)
			w.AddNode(n)
		}
	}
	mkNew := func() {
		for i, pid := range newP {
			n := newNode(fmt.Sprintf("N%d", i), "new", pid)
			params := tss.NewReSharingParameters(tss.S256(), octx, nctx, pid, oldN, t, len(newP), newT)
			params.SetConcurrency(Concurrency)
			if ParamHook != nil {
				ParamHook(params.Parameters)
			}
			if o.NoProofs {
				params.SetNoProofMod()
				params.SetNoProofFac()
			}
			save := ecdsakeygen.NewLocalPartySaveData(len(newP))
			save.LocalPreParams = pre[i]
			end := make(chan *ecdsakeygen.LocalPartySaveData, 16)
			n.Party = ecdsaresharing.NewLocalParty(params, save, n.Out, end)
			n.DrainEnd = drain(end)
			w.AddNode(n)
		}
	}
	if o.NewFirst {
		mkNew()
		mkOld()
	} else {
		mkOld()
		mkNew()
	}
	return w
}

// ---- EdDSA

func EDDSAKeygen(seed int64, keys []*big.Int, t int) *World {
	w := NewWorld("eddsa-keygen", seed)
	pids := MakePIDs("K", keys)
	ctx := tss.NewPeerContext(pids)
	for i, pid := range pids {
		n := newNode(fmt.Sprintf("P%d", i), "all", pid)
		params := tss.NewParameters(tss.Edwards(), ctx, pid, len(pids), t)
		if ParamHook != nil {
			ParamHook(params)
		}
		end := make(chan *eddsakeygen.LocalPartySaveData, 16)
		n.Party = eddsakeygen.NewLocalParty(params, n.Out, end)
		n.DrainEnd = drain(end)
		w.AddNode(n)
	}
	return w
}

func EDDSASigning(seed int64, keys []eddsakeygen.LocalPartySaveData, t int, msg *big.Int, o SignOpts) *World {
	w := NewWorld("eddsa-signing", seed)
	ids := make([]*big.Int, len(keys))
	for i := range keys {
		ids[i] = keys[i].ShareID
	}
	pids := pidsForShareIDs(ids, w, o.Shuffle)
	ctx, pids := peerCtxFor(o, pids)
	for i, pid := range pids {
		var key eddsakeygen.LocalPartySaveData
		for k := range keys {
			if keys[k].ShareID.Cmp(pid.KeyInt()) == 0 {
				key = keys[k]
			}
		}
		n := newNode(fmt.Sprintf("P%d", i), "all", pid)
		params := tss.NewParameters(tss.Edwards(), ctx, pid, signPartyCount(o, len(pids)), t)
		if o.Rand != nil {
			params.SetRand(o.Rand(i))
		}
		if o.PartialKeyRand != nil {
			params.SetPartialKeyRand(o.PartialKeyRand(i))
		}
		if ParamHook != nil {
			ParamHook(params)
		}
		end := make(chan *common.SignatureData, 16)
		var fb []int
		if o.FullBytesLen > 0 {
			fb = []int{o.FullBytesLen}
		}
		n.Party = eddsasigning.NewLocalParty(msg, params, key, n.Out, end, fb...)
		n.DrainEnd = drain(end)
		w.AddNode(n)
	}
	return w
}

func EDDSAResharing(seed int64, oldKeys []eddsakeygen.LocalPartySaveData, t int, newIDs []*big.Int, newT int, o ReshareOpts) *World {
	w := NewWorld("eddsa-resharing", seed)
	ids := make([]*big.Int, len(oldKeys))
	for i := range oldKeys {
		ids[i] = oldKeys[i].ShareID
	}
	oldP := MakePIDs("O", ids)
	newP := MakePIDs("N", newIDs)
	octx, nctx := tss.NewPeerContext(oldP), tss.NewPeerContext(newP)
	oldN := o.OldN
	if oldN == 0 {
		oldN = len(oldKeys)
	}
	mkOld := func() {
		for i, pid := range oldP {
			var key eddsakeygen.LocalPartySaveData
			for k := range oldKeys {
				if oldKeys[k].ShareID.Cmp(pid.KeyInt()) == 0 {
					key = oldKeys[k]
				}
			}
			n := newNode(fmt.Sprintf("O%d", i), "old", pid)
			params := tss.NewReSharingParameters(tss.Edwards(), octx, nctx, pid, oldN, t, len(newP), newT)
			if ParamHook != nil {
				ParamHook(params.Parameters)
			}
			end := make(chan *eddsakeygen.LocalPartySaveData, 16)
			n.Party = eddsaresharing.NewLocalParty(params, key, n.Out, end)
			n.DrainEnd = drain(end)
			w.AddNode(n)
		}
	}
	mkNew := func() {
		for i, pid := range newP {
			n := newNode(fmt.Sprintf("N%d", i), "new", pid)
			params := tss.NewReSharingParameters(tss.Edwards(), octx, nctx, pid, oldN, t, len(newP), newT)
			if ParamHook != nil {
				ParamHook(params.Parameters)
			}
			save := eddsakeygen.NewLocalPartySaveData(len(newP))
			end := make(chan *eddsakeygen.LocalPartySaveData, 16)
			n.Party = eddsaresharing.NewLocalParty(params, save, n.Out, end)
			n.DrainEnd = drain(end)
			w.AddNode(n)
		}
	}
	if o.NewFirst {
		mkNew()
		mkOld()
	} else {
		mkOld()
		mkNew()
	}
	return w
}

func signPartyCount(o SignOpts, signers int) int {
	if o.PartyCount > 0 {
		return o.PartyCount
	}
	return signers
}
