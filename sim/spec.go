package sim

import "strings"

// MsgSpec is the protocol description of one message type (from the GG18 / tss-lib protocol, not from the code under test).
type MsgSpec struct {
	Short  string
	Round  int    // round in which it is sent and consumed
	Bcast  bool   // must be flagged broadcast; false = point-to-point to exactly one recipient
	Secret bool   // secret-bearing (must be p2p)
	From   string // sender role: all | old | new
	To     string // recipient role: all | old | new | old+new
}

// Specs per protocol.
var Specs = map[string][]MsgSpec{
	"ecdsa-keygen": {
		{"KGRound1Message", 1, true, false, "all", "all"},
		{"KGRound2Message1", 2, false, true, "all", "all"},
		{"KGRound2Message2", 2, true, false, "all", "all"},
		{"KGRound3Message", 3, true, false, "all", "all"},
	},
	"ecdsa-signing": {
		{"SignRound1Message1", 1, false, true, "all", "all"},
		{"SignRound1Message2", 1, true, false, "all", "all"},
		{"SignRound2Message", 2, false, true, "all", "all"},
		{"SignRound3Message", 3, true, false, "all", "all"},
		{"SignRound4Message", 4, true, false, "all", "all"},
		{"SignRound5Message", 5, true, false, "all", "all"},
		{"SignRound6Message", 6, true, false, "all", "all"},
		{"SignRound7Message", 7, true, false, "all", "all"},
		{"SignRound8Message", 8, true, false, "all", "all"},
		{"SignRound9Message", 9, true, false, "all", "all"},
	},
	"ecdsa-resharing": {
		{"DGRound1Message", 1, true, false, "old", "new"},
		{"DGRound2Message1", 2, true, false, "new", "new"},
		{"DGRound2Message2", 2, true, false, "new", "old"},
		{"DGRound3Message1", 3, false, true, "old", "new"},
		{"DGRound3Message2", 3, true, false, "old", "new"},
		{"DGRound4Message1", 4, false, true, "new", "new"},
		{"DGRound4Message2", 4, true, false, "new", "old+new"},
	},
	"eddsa-keygen": {
		{"KGRound1Message", 1, true, false, "all", "all"},
		{"KGRound2Message1", 2, false, true, "all", "all"},
		{"KGRound2Message2", 2, true, false, "all", "all"},
	},
	"eddsa-signing": {
		{"SignRound1Message", 1, true, false, "all", "all"},
		{"SignRound2Message", 2, true, false, "all", "all"},
		{"SignRound3Message", 3, true, false, "all", "all"},
	},
	"eddsa-resharing": {
		{"DGRound1Message", 1, true, false, "old", "new"},
		{"DGRound2Message", 2, true, false, "new", "old"},
		{"DGRound3Message1", 3, false, true, "old", "new"},
		{"DGRound3Message2", 3, true, false, "old", "new"},
		{"DGRound4Message", 4, true, false, "new", "old+new"},
	},
}

// FinalRound is the round number String() reports while the party computes its result (no messages).
var FinalRound = map[string]int{
	"ecdsa-keygen": 4, "ecdsa-signing": 10, "ecdsa-resharing": 5,
	"eddsa-keygen": 3, "eddsa-signing": 4, "eddsa-resharing": 5,
}

func SpecOf(proto, short string) *MsgSpec {
	for i := range Specs[proto] {
		if Specs[proto][i].Short == short {
			return &Specs[proto][i]
		}
	}
	return nil
}

func roleMatches(role, group string) bool {
	switch role {
	case "all":
		return true
	case "old+new":
		return group == "old" || group == "new"
	}
	return role == group
}

// RequiredFrom lists, for a party of the given group in round r, the message types it must receive and from which role.
func RequiredFrom(proto, group string, round int) []MsgSpec {
	var out []MsgSpec
	for _, s := range Specs[proto] {
		if s.Round == round && roleMatches(s.To, group) {
			out = append(out, s)
		}
	}
	return out
}

// SendsIn lists the message types a party of the given group sends in round r.
func SendsIn(proto, group string, round int) []MsgSpec {
	var out []MsgSpec
	for _, s := range Specs[proto] {
		if s.Round == round && roleMatches(s.From, group) {
			out = append(out, s)
		}
	}
	return out
}

func IsResharing(proto string) bool { return strings.HasSuffix(proto, "resharing") }
