package sim

// Scheduling strategies. Every strategy only chooses among events that exist, so causality is automatic.

func FIFO(w *World) int {
	best := 0
	for i, e := range w.Pending {
		if e.Seq < w.Pending[best].Seq {
			best = i
		}
	}
	return best
}

func LIFO(w *World) int {
	best := 0
	for i, e := range w.Pending {
		if e.Seq > w.Pending[best].Seq {
			best = i
		}
	}
	return best
}

func Random(w *World) int { return w.Rng.Intn(len(w.Pending)) }

// StartsThen runs all Start events first (in FIFO order), then defers to s.
func StartsThen(s Scheduler) Scheduler {
	return func(w *World) int {
		best := -1
		for i, e := range w.Pending {
			if e.Kind == EvStart && (best < 0 || e.Seq < w.Pending[best].Seq) {
				best = i
			}
		}
		if best >= 0 {
			return best
		}
		return s(w)
	}
}

// Starve delivers to (and starts) node `victim` only when nothing else can happen.
func Starve(victim int, s Scheduler) Scheduler {
	return func(w *World) int {
		var other []int
		for i, e := range w.Pending {
			if e.Node.Idx != victim {
				other = append(other, i)
			}
		}
		if len(other) == 0 {
			return s(w)
		}
		// apply s to the restricted list
		sub := &World{Pending: make([]*Event, len(other)), Rng: w.Rng}
		for k, i := range other {
			sub.Pending[k] = w.Pending[i]
		}
		return other[s(sub)]
	}
}

// FutureFirst prefers the delivery whose message belongs to the highest round (messages arrive rounds early);
// ties and Starts in FIFO order.
func FutureFirst(w *World) int {
	best, bestRound := -1, -1
	for i, e := range w.Pending {
		r := 0
		if e.Kind == EvDeliver {
			if sp := SpecOf(w.Proto, e.Msg.Short); sp != nil {
				r = sp.Round
			}
		}
		if r > bestRound || (r == bestRound && e.Seq > w.Pending[best].Seq) {
			best, bestRound = i, r
		}
	}
	return best
}

// PreStart holds back the Start of every node in `victims` until nothing else is pending, and delivers
// to them eagerly, so that they receive messages before their own Start call.
func PreStart(victims map[int]bool) Scheduler {
	return func(w *World) int {
		// 1. deliveries to not-yet-started victims
		best := -1
		for i, e := range w.Pending {
			if e.Kind == EvDeliver && victims[e.Node.Idx] && !e.Node.Started {
				if best < 0 || e.Seq < w.Pending[best].Seq {
					best = i
				}
			}
		}
		if best >= 0 {
			return best
		}
		// 2. anything that is not a victim's Start
		for i, e := range w.Pending {
			if e.Kind == EvStart && victims[e.Node.Idx] {
				continue
			}
			if best < 0 || e.Seq < w.Pending[best].Seq {
				best = i
			}
		}
		if best >= 0 {
			return best
		}
		return FIFO(w)
	}
}

// Scripted replays a recorded choice sequence (indices into Pending), then continues FIFO.
func Scripted(choices []int) Scheduler {
	k := 0
	return func(w *World) int {
		if k < len(choices) {
			c := choices[k]
			k++
			if c < len(w.Pending) {
				return c
			}
		}
		return FIFO(w)
	}
}
