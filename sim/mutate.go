package sim

import (
	"fmt"
	"sort"

	"google.golang.org/protobuf/proto"
	"google.golang.org/protobuf/reflect/protoreflect"
	"google.golang.org/protobuf/types/known/anypb"
)

// Wire-level access to message fields through protobuf reflection. Every tss-lib message consists of
// `bytes` and `repeated bytes` fields only, so one mutator covers every field of every message type,
// including fields and types added later.

type Field struct {
	Name     string
	Repeated bool
}

// DecodeWire parses wire bytes (a marshalled Any) into the concrete message.
func DecodeWire(wire []byte) (proto.Message, error) {
	a := new(anypb.Any)
	if err := proto.Unmarshal(wire, a); err != nil {
		return nil, err
	}
	return a.UnmarshalNew()
}

func EncodeWire(m proto.Message) ([]byte, error) {
	a, err := anypb.New(m)
	if err != nil {
		return nil, err
	}
	return proto.Marshal(a)
}

// FieldsOf lists the byte fields of the message inside wire.
func FieldsOf(wire []byte) ([]Field, error) {
	m, err := DecodeWire(wire)
	if err != nil {
		return nil, err
	}
	return FieldsOfMsg(m), nil
}

func FieldsOfMsg(m proto.Message) []Field {
	var out []Field
	fds := m.ProtoReflect().Descriptor().Fields()
	for i := 0; i < fds.Len(); i++ {
		fd := fds.Get(i)
		if fd.Kind() != protoreflect.BytesKind {
			continue
		}
		out = append(out, Field{Name: string(fd.Name()), Repeated: fd.IsList()})
	}
	sort.Slice(out, func(i, j int) bool { return out[i].Name < out[j].Name })
	return out
}

// GetField returns the value(s) of a field: one element for a scalar field.
func GetField(wire []byte, name string) ([][]byte, error) {
	m, err := DecodeWire(wire)
	if err != nil {
		return nil, err
	}
	fd := m.ProtoReflect().Descriptor().Fields().ByName(protoreflect.Name(name))
	if fd == nil {
		return nil, fmt.Errorf("no field %s", name)
	}
	v := m.ProtoReflect().Get(fd)
	if fd.IsList() {
		l := v.List()
		out := make([][]byte, l.Len())
		for i := range out {
			out[i] = append([]byte{}, l.Get(i).Bytes()...)
		}
		return out, nil
	}
	return [][]byte{append([]byte{}, v.Bytes()...)}, nil
}

// SetField replaces the whole field: vals has one element for a scalar field (nil/empty clears it), any number for a list.
func SetField(wire []byte, name string, vals [][]byte) ([]byte, error) {
	m, err := DecodeWire(wire)
	if err != nil {
		return nil, err
	}
	r := m.ProtoReflect()
	fd := r.Descriptor().Fields().ByName(protoreflect.Name(name))
	if fd == nil {
		return nil, fmt.Errorf("no field %s", name)
	}
	if fd.IsList() {
		r.Clear(fd)
		l := r.Mutable(fd).List()
		for _, v := range vals {
			l.Append(protoreflect.ValueOfBytes(append([]byte{}, v...)))
		}
	} else {
		if len(vals) == 0 || len(vals[0]) == 0 {
			r.Clear(fd)
		} else {
			r.Set(fd, protoreflect.ValueOfBytes(append([]byte{}, vals[0]...)))
		}
	}
	return EncodeWire(m)
}

// TypeURLSwap re-labels the payload with another message's type URL (wrong Any type).
func TypeURLSwap(wire []byte, otherWire []byte) ([]byte, error) {
	a, b := new(anypb.Any), new(anypb.Any)
	if err := proto.Unmarshal(wire, a); err != nil {
		return nil, err
	}
	if err := proto.Unmarshal(otherWire, b); err != nil {
		return nil, err
	}
	a.TypeUrl = b.TypeUrl
	return proto.Marshal(a)
}
