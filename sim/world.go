// Package sim is a deterministic in-process network for tss-lib parties. The harness goroutine makes
// every Start / UpdateFromBytes call itself, one event at a time, so the schedule is exactly the
// recorded one; monitors hook in after every single step.
package sim

import (
	"bytes"
	"crypto/sha256"
	"encoding/hex"
	"fmt"
	mrand "math/rand"
	"sort"
	"strings"

	"github.com/bnb-chain/tss-lib/v2/tss"
)

const (
	EvStart = iota
	EvDeliver
)

type Node struct {
	Idx      int
	Name     string
	PID      *tss.PartyID
	Party    tss.Party
	Group    string // "all" for keygen/signing, "old" / "new" for resharing
	Proto    string
	Out      chan tss.Message
	DrainEnd func() []any

	Started   bool
	StartRet  bool
	StartErr  *tss.Error
	Ended     []any
	Errors    []*tss.Error // errors returned by Update calls on this node
	Inbox     []string     // per-party inbox sequence (message keys and the Start marker)
	Silent    bool         // everything this node emits from now on is dropped
	Deviator  bool
	SentTypes []string
}

type Msg struct {
	ID          int
	From        *Node
	Type        string // full proto name
	Short       string
	Wire        []byte
	Bcast       bool
	ToOld       bool
	ToOldAndNew bool
	To          []*tss.PartyID
	Recips      []*Node
	Orig        tss.Message
	Step        int // step at which it was emitted
}

func (m *Msg) Key() string { return fmt.Sprintf("%s<%s", m.Short, m.From.Name) }

type Event struct {
	Kind    int
	Node    *Node
	Msg     *Msg
	Wire    []byte
	Bcast   bool
	FromPID *tss.PartyID
	Tag     string
	Seq     int
}

func (e *Event) String() string {
	if e.Kind == EvStart {
		return "Start(" + e.Node.Name + ")"
	}
	t := ""
	if e.Tag != "" {
		t = "[" + e.Tag + "]"
	}
	return fmt.Sprintf("%s->%s%s", e.Msg.Key(), e.Node.Name, t)
}

type StepRecord struct {
	Step  int
	Ev    string
	OK    bool
	Err   string
	Culp  []string
	Sent  []string
	Ended []string
}

type World struct {
	Proto   string
	Nodes   []*Node
	Pending []*Event
	Msgs    []*Msg
	Steps   []StepRecord
	Rng     *mrand.Rand
	seq     int

	// Rewrite may alter / drop what a recipient gets. Called once per (message, recipient) at routing time.
	Rewrite func(w *World, m *Msg, to *Node) (wire []byte, bcast bool, from *tss.PartyID, drop bool)
	// ShareObjects: deliver genuine messages through Party.Update with the sender's ParsedMessage object itself (shared by
	// all recipients) instead of per-recipient bytes: the in-process transport of an application that runs several parties.
	ShareObjects bool
	// Hold lets an interceptor postpone routing of a message (it is re-offered after every step).
	Hold func(w *World, m *Msg) bool
	held []*Msg

	OnSent      []func(m *Msg)
	OnDelivered []func(ev *Event, ok bool, err *tss.Error)
	AfterStep   []func(ev *Event)
	BeforeExec  []func(ev *Event)
	OnReturn    []func(ev *Event, ok bool, err *tss.Error) // right after the party call returned, before its output is routed
	DupAll      bool                                       // duplicate-everything strategy: re-queue one copy of every delivery
	MaxSteps    int
	Panics      []string
}

func NewWorld(proto string, seed int64) *World {
	return &World{Proto: proto, Rng: mrand.New(mrand.NewSource(seed)), MaxSteps: 200000}
}

func (w *World) AddNode(n *Node) *Node {
	n.Idx = len(w.Nodes)
	n.Proto = w.Proto
	w.Nodes = append(w.Nodes, n)
	w.Pending = append(w.Pending, &Event{Kind: EvStart, Node: n, Seq: w.nextSeq()})
	return n
}

func (w *World) nextSeq() int { w.seq++; return w.seq }

func (w *World) NodeByKey(group string, pid *tss.PartyID) *Node {
	for _, n := range w.Nodes {
		if (group == "" || n.Group == group) && n.PID.KeyInt().Cmp(pid.KeyInt()) == 0 {
			return n
		}
	}
	return nil
}

func short(full string) string {
	if i := strings.LastIndex(full, "."); i >= 0 {
		return full[i+1:]
	}
	return full
}

// route resolves the recipients of a message from its routing information, by party key.
func (w *World) route(m *Msg) []*Node {
	var out []*Node
	add := func(n *Node) {
		if n == nil || n == m.From {
			return
		}
		for _, e := range out {
			if e == n {
				return
			}
		}
		out = append(out, n)
	}
	if m.To == nil {
		for _, n := range w.Nodes {
			add(n)
		}
		return out
	}
	for _, pid := range m.To {
		switch {
		case w.isResharing() && m.ToOldAndNew:
			add(w.NodeByKey("old", pid))
			add(w.NodeByKey("new", pid))
		case w.isResharing() && m.ToOld:
			add(w.NodeByKey("old", pid))
		case w.isResharing():
			add(w.NodeByKey("new", pid))
		default:
			add(w.NodeByKey("", pid))
		}
	}
	return out
}

func (w *World) isResharing() bool { return strings.HasSuffix(w.Proto, "resharing") }

// collect drains every node's out/end channels, routes the new messages and queues deliveries.
func (w *World) collect(rec *StepRecord) {
	for _, n := range w.Nodes {
		for {
			var tm tss.Message
			select {
			case tm = <-n.Out:
			default:
			}
			if tm == nil {
				break
			}
			wire, routing, err := tm.WireBytes()
			if err != nil {
				w.Panics = append(w.Panics, fmt.Sprintf("WireBytes of %s failed: %v", tm.Type(), err))
				continue
			}
			m := &Msg{ID: len(w.Msgs), From: n, Type: tm.Type(), Short: short(tm.Type()), Wire: wire, Bcast: routing.IsBroadcast,
				ToOld: routing.IsToOldCommittee, ToOldAndNew: routing.IsToOldAndNewCommittees, To: routing.To, Orig: tm, Step: len(w.Steps)}
			m.Recips = w.route(m)
			w.Msgs = append(w.Msgs, m)
			n.SentTypes = append(n.SentTypes, m.Short)
			if rec != nil {
				rec.Sent = append(rec.Sent, m.Key())
			}
			for _, f := range w.OnSent {
				f(m)
			}
			if n.Silent {
				continue
			}
			if w.Hold != nil && w.Hold(w, m) {
				w.held = append(w.held, m)
				continue
			}
			w.enqueue(m)
		}
		if n.DrainEnd != nil {
			for _, e := range n.DrainEnd() {
				n.Ended = append(n.Ended, e)
				if rec != nil {
					rec.Ended = append(rec.Ended, n.Name)
				}
			}
		}
	}
	// re-offer held messages
	if w.Hold != nil && len(w.held) > 0 {
		var still []*Msg
		for _, m := range w.held {
			if w.Hold(w, m) {
				still = append(still, m)
			} else {
				w.enqueue(m)
			}
		}
		w.held = still
	}
}

func (w *World) enqueue(m *Msg) {
	for _, to := range m.Recips {
		wire, bc, from, drop := m.Wire, m.Bcast, m.From.PID, false
		if w.Rewrite != nil {
			wire, bc, from, drop = w.Rewrite(w, m, to)
		}
		if drop {
			continue
		}
		w.Pending = append(w.Pending, &Event{Kind: EvDeliver, Node: to, Msg: m, Wire: wire, Bcast: bc, FromPID: from, Seq: w.nextSeq()})
	}
}

// Inject queues a hand-made delivery (flag flips, replays, forged senders).
func (w *World) Inject(ev *Event) {
	ev.Seq = w.nextSeq()
	w.Pending = append(w.Pending, ev)
}

// Exec executes pending event i.
func (w *World) Exec(i int) *Event {
	ev := w.Pending[i]
	w.Pending = append(w.Pending[:i], w.Pending[i+1:]...)
	rec := StepRecord{Step: len(w.Steps), Ev: ev.String()}
	for _, f := range w.BeforeExec {
		f(ev)
	}
	switch ev.Kind {
	case EvStart:
		ev.Node.Started = true
		ev.Node.Inbox = append(ev.Node.Inbox, "S")
		err := ev.Node.Party.Start()
		ev.Node.StartRet = true
		ev.Node.StartErr = err
		for _, f := range w.OnReturn {
			f(ev, err == nil, err)
		}
		rec.OK = err == nil
		if err != nil {
			rec.Err = err.Error()
			rec.Culp = culpritNames(err)
		}
		w.collect(&rec)
		for _, f := range w.OnDelivered {
			f(ev, err == nil, err)
		}
	case EvDeliver:
		ev.Node.Inbox = append(ev.Node.Inbox, ev.Msg.Key()+tagSuffix(ev.Tag))
		var ok bool
		var err *tss.Error
		if pm, isPM := ev.Msg.Orig.(tss.ParsedMessage); w.ShareObjects && isPM && ev.Tag == "" && bytes.Equal(ev.Wire, ev.Msg.Wire) && ev.Bcast == ev.Msg.Bcast {
			// in-process transport: the very message object the sender emitted is handed to every recipient
			ok, err = ev.Node.Party.Update(pm)
		} else {
			ok, err = ev.Node.Party.UpdateFromBytes(ev.Wire, ev.FromPID, ev.Bcast)
		}
		rec.OK = ok
		for _, f := range w.OnReturn {
			f(ev, ok, err)
		}
		if err != nil {
			rec.Err = err.Error()
			rec.Culp = culpritNames(err)
			ev.Node.Errors = append(ev.Node.Errors, err)
		}
		w.collect(&rec)
		for _, f := range w.OnDelivered {
			f(ev, ok, err)
		}
		if w.DupAll && ev.Tag == "" {
			cp := *ev
			cp.Tag = "dup"
			cp.Seq = w.nextSeq()
			pos := 0
			if len(w.Pending) > 0 {
				pos = w.Rng.Intn(len(w.Pending) + 1)
			}
			w.Pending = append(w.Pending, nil)
			copy(w.Pending[pos+1:], w.Pending[pos:])
			w.Pending[pos] = &cp
		}
	}
	w.Steps = append(w.Steps, rec)
	for _, f := range w.AfterStep {
		f(ev)
	}
	return ev
}

func tagSuffix(t string) string {
	if t == "" {
		return ""
	}
	return "#" + t
}

func culpritNames(err *tss.Error) []string {
	var out []string
	for _, c := range err.Culprits() {
		if c == nil {
			out = append(out, "<nil>")
			continue
		}
		out = append(out, fmt.Sprintf("%s/%d", c.Id, c.Index))
	}
	return out
}

// Scheduler picks the index of the next pending event.
type Scheduler func(w *World) int

// Run executes events until nothing is pending (or stop says so).
func (w *World) Run(s Scheduler, stop func(w *World) bool) {
	for len(w.Pending) > 0 && len(w.Steps) < w.MaxSteps {
		if stop != nil && stop(w) {
			return
		}
		if len(w.Pending) == 0 {
			return // the stop hook may drop queued events (a party going silent)
		}
		w.Exec(s(w))
	}
}

// InboxHash identifies the schedule up to commuting deliveries: the vector of per-party inbox sequences.
func (w *World) InboxHash() string {
	h := sha256.New()
	for _, n := range w.Nodes {
		h.Write([]byte(n.Name + ":" + strings.Join(n.Inbox, ",") + ";"))
	}
	return hex.EncodeToString(h.Sum(nil))[:16]
}

func (w *World) AllEnded() bool {
	for _, n := range w.Nodes {
		if len(n.Ended) == 0 {
			return false
		}
	}
	return true
}

func (w *World) Trace(max int) []string {
	var out []string
	for i, s := range w.Steps {
		if i >= max {
			out = append(out, fmt.Sprintf("… %d more steps", len(w.Steps)-max))
			break
		}
		ln := fmt.Sprintf("%d %s ok=%v", s.Step, s.Ev, s.OK)
		if s.Err != "" {
			ln += " ERR=" + clip(s.Err, 160) + " culprits=" + strings.Join(s.Culp, ",")
		}
		if len(s.Sent) > 0 {
			ln += " sent=" + strings.Join(s.Sent, ",")
		}
		if len(s.Ended) > 0 {
			ln += " ENDED=" + strings.Join(s.Ended, ",")
		}
		out = append(out, ln)
	}
	return out
}

func clip(s string, n int) string {
	if len(s) > n {
		return s[:n] + "…"
	}
	return s
}

// SentMultiset summarises what a node emitted: sorted "type>recipients|flags" strings.
func (w *World) SentMultiset(n *Node) []string {
	var out []string
	for _, m := range w.Msgs {
		if m.From != n {
			continue
		}
		var rc []string
		for _, r := range m.Recips {
			rc = append(rc, r.Name)
		}
		sort.Strings(rc)
		out = append(out, fmt.Sprintf("%s>%s|b=%v,o=%v,on=%v", m.Short, strings.Join(rc, "+"), m.Bcast, m.ToOld, m.ToOldAndNew))
	}
	sort.Strings(out)
	return out
}

// Describe resolves an emitted message (wire bytes, routing, recipients) without queueing it.
// Used by the concurrent driver (C09), which delivers from its own goroutines.
func (w *World) Describe(n *Node, tm tss.Message) (*Msg, error) {
	wire, routing, err := tm.WireBytes()
	if err != nil {
		return nil, err
	}
	m := &Msg{From: n, Type: tm.Type(), Short: short(tm.Type()), Wire: wire, Bcast: routing.IsBroadcast,
		ToOld: routing.IsToOldCommittee, ToOldAndNew: routing.IsToOldAndNewCommittees, To: routing.To, Orig: tm}
	m.Recips = w.route(m)
	return m, nil
}
