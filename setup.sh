#!/bin/bash
# setup_cmd: offline build of the framework + reference self-tests.
set -e
cd "$(dirname "$0")"
export GOFLAGS=-mod=mod GOPROXY=off GOSUMDB=off GOTOOLCHAIN=local
mkdir -p bin evidence replays
go test ./ref/ 
go build -tags verif -o bin/vcheck ./cmd/vcheck
go build -tags verif -race -o bin/vcheck.race ./cmd/vcheck
# generators of every check produce unique case ids for both tiers
bin/vcheck gencheck > /dev/null
# the repository must build with and without the hook tag
(cd /repo && go build ./... && go build -tags verif ./...)
echo setup ok
