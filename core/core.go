// Package core is the check driver: case lists, worker child processes, verdict discipline,
// known-findings protocol and evidence files. It never calls tss-lib itself in the driver
// process; library code only runs inside workers.
package core

import (
	"encoding/json"
	"fmt"
	"math/big"
	"sort"
	"strconv"
	"strings"
)

const (
	Held         = "held"
	Violated     = "violated"
	Inconclusive = "inconclusive"
)

// P is a JSON-round-trippable parameter bag.
type P map[string]any

func (p P) Str(k string) string {
	if v, ok := p[k]; ok {
		if s, ok := v.(string); ok {
			return s
		}
		return fmt.Sprint(v)
	}
	return ""
}

func (p P) Has(k string) bool { _, ok := p[k]; return ok }

func (p P) Int(k string) int {
	switch v := p[k].(type) {
	case float64:
		return int(v)
	case int:
		return v
	case int64:
		return int(v)
	case string:
		n, _ := strconv.Atoi(v)
		return n
	case json.Number:
		n, _ := v.Int64()
		return int(n)
	}
	return 0
}

func (p P) Bool(k string) bool {
	switch v := p[k].(type) {
	case bool:
		return v
	case string:
		return v == "true"
	case float64:
		return v != 0
	}
	return false
}

func (p P) Ints(k string) []int {
	switch v := p[k].(type) {
	case []int:
		return v
	case []any:
		out := make([]int, len(v))
		for i := range v {
			switch e := v[i].(type) {
			case float64:
				out[i] = int(e)
			case int:
				out[i] = e
			}
		}
		return out
	}
	return nil
}

func (p P) Strs(k string) []string {
	switch v := p[k].(type) {
	case []string:
		return v
	case []any:
		out := make([]string, len(v))
		for i := range v {
			out[i] = fmt.Sprint(v[i])
		}
		return out
	}
	return nil
}

// Big reads a hex string.
func (p P) Big(k string) *big.Int {
	s := p.Str(k)
	if s == "" {
		return nil
	}
	v, ok := new(big.Int).SetString(s, 16)
	if !ok {
		return nil
	}
	return v
}

func Hex(v *big.Int) string { return v.Text(16) }

type Case struct {
	ID    string  `json:"id"`
	Class string  `json:"class"`
	Kind  string  `json:"kind"`
	P     P       `json:"p,omitempty"`
	Cost  float64 `json:"cost,omitempty"` // expected seconds, used for scheduling and watchdog
}

type Result struct {
	ID         string              `json:"id"`
	Class      string              `json:"class"`
	Verdict    string              `json:"verdict"`
	Sig        string              `json:"sig,omitempty"` // violation signature (known-findings key)
	Msg        string              `json:"msg,omitempty"`
	NonTrivial bool                `json:"nontrivial"`
	Obs        map[string]int64    `json:"obs,omitempty"`
	Sets       map[string][]string `json:"sets,omitempty"` // named sets of distinct things observed (merged across cases)
	Sample     any                 `json:"sample,omitempty"`
	Witness    string              `json:"witness,omitempty"`
	WallMs     int64               `json:"wall_ms"`
	Extra      []Result            `json:"extra,omitempty"`   // additional verdicts produced by the same execution
	Recycle    bool                `json:"recycle,omitempty"` // the worker process is poisoned (stuck goroutine): restart it
}

func (r *Result) Count(k string, n int64) {
	if r.Obs == nil {
		r.Obs = map[string]int64{}
	}
	r.Obs[k] += n
}

func (r *Result) AddSet(k, v string) {
	if r.Sets == nil {
		r.Sets = map[string][]string{}
	}
	for _, e := range r.Sets[k] {
		if e == v {
			return
		}
	}
	if len(r.Sets[k]) < 4096 {
		r.Sets[k] = append(r.Sets[k], v)
	}
}

// Fail marks the result violated (first failure wins for Sig/Msg; later ones are appended to Msg).
func (r *Result) Fail(sig, format string, a ...any) {
	msg := fmt.Sprintf(format, a...)
	if r.Verdict != Violated {
		r.Verdict = Violated
		r.Sig = sig
		r.Msg = msg
		return
	}
	if len(r.Msg) < 4000 {
		r.Msg += " || " + msg
	}
}

func (r *Result) Inconcl(format string, a ...any) {
	if r.Verdict == Violated {
		return
	}
	r.Verdict = Inconclusive
	r.Msg = fmt.Sprintf(format, a...)
}

type Env struct {
	Tier   string
	Seed   int64
	RunDir string // scratch directory shared by the workers of one run
	Repo   string
}

type Check struct {
	ID          string
	Level       string // exploration | fault_enumeration | ...
	Rule        string
	Assumptions []string
	Race        bool // needs the -race worker binary
	Workers     int  // 0 = default
	Gen         func(tier string, seed int64) []Case
	Run         func(c Case, env *Env) Result
	// Post runs in the driver over all results (cross-case oracles); it may append results.
	Post func(results []Result, env *Env) []Result
	// MinEvents: observation counters that must be non-zero for the run to count at all.
	MinEvents []string
	// CrashInconclusive: a worker death is another property's verdict (C06); count the case as inconclusive here.
	CrashInconclusive bool
}

var registry = map[string]*Check{}

func Register(c *Check) {
	if _, dup := registry[c.ID]; dup {
		panic("duplicate check " + c.ID)
	}
	registry[c.ID] = c
}

func Lookup(id string) *Check { return registry[id] }

func IDs() []string {
	var out []string
	for k := range registry {
		out = append(out, k)
	}
	sort.Strings(out)
	return out
}

// ---- small helpers shared by the checks ----

func Clip(s string, n int) string {
	if len(s) <= n {
		return s
	}
	return s[:n] + "…"
}

// SigClean makes a signature from free text: no digits runs longer than 4, no addresses.
func SigClean(s string) string {
	s = strings.ReplaceAll(s, "\n", " ")
	var b strings.Builder
	run := 0
	for _, c := range s {
		if c >= '0' && c <= '9' {
			run++
			if run > 6 {
				continue
			}
		} else {
			run = 0
		}
		b.WriteRune(c)
	}
	return Clip(b.String(), 160)
}
