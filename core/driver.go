package core

import (
	"bufio"
	"encoding/json"
	"fmt"
	"io"
	"os"
	"os/exec"
	"path/filepath"
	"regexp"
	"runtime"
	"runtime/debug"
	"runtime/pprof"
	"sort"
	"strconv"
	"strings"
	"sync"
	"sync/atomic"
	"syscall"
	"time"
)

// ---------------------------------------------------------------- worker side

// WorkerMain runs cases read from stdin (one JSON per line) and answers "END <json>" per case.
func WorkerMain(id string) {
	chk := Lookup(id)
	if chk == nil {
		fmt.Fprintln(os.Stderr, "unknown check", id)
		os.Exit(3)
	}
	if pf := os.Getenv("VCHECK_CPUPROFILE"); pf != "" {
		// development aid: CPU profile of a worker (one worker, use with --only)
		if f, err := os.Create(pf); err == nil {
			pprof.StartCPUProfile(f)
			time.AfterFunc(90*time.Second, pprof.StopCPUProfile)
		}
	}
	seed, _ := strconv.ParseInt(os.Getenv("VCHECK_SEED"), 10, 64)
	env := &Env{Tier: os.Getenv("VCHECK_TIER"), Seed: seed, RunDir: os.Getenv("VCHECK_RUNDIR"), Repo: os.Getenv("VCHECK_REPO")}
	in := bufio.NewReaderSize(os.Stdin, 1<<20)
	out := bufio.NewWriter(os.Stdout)
	for {
		line, err := in.ReadString('\n')
		if len(strings.TrimSpace(line)) > 0 {
			var c Case
			if jerr := json.Unmarshal([]byte(line), &c); jerr != nil {
				fmt.Fprintln(os.Stderr, "bad case json:", jerr)
				os.Exit(3)
			}
			fmt.Fprintf(os.Stderr, "\n=== BEGIN %s\n", c.ID)
			fmt.Fprintf(out, "BEGIN %s\n", c.ID)
			out.Flush()
			res := runOne(chk, c, env)
			b, _ := json.Marshal(res)
			fmt.Fprintf(out, "END %s\n", b)
			out.Flush()
		}
		if err != nil {
			return
		}
	}
}

func runOne(chk *Check, c Case, env *Env) (res Result) {
	t0 := time.Now()
	defer func() {
		if r := recover(); r != nil {
			st := string(debug.Stack())
			res = Result{ID: c.ID, Class: c.Class, Verdict: Violated,
				Sig:     "panic:" + TopLibFrame(st),
				Msg:     fmt.Sprintf("panic in the calling goroutine: %v", r),
				Witness: st}
		}
		res.ID, res.WallMs = c.ID, time.Since(t0).Milliseconds()
		if res.Class == "" {
			res.Class = c.Class
		}
		if res.Verdict == "" {
			res.Verdict = Held
		}
	}()
	return chk.Run(c, env)
}

var libFrameRe = regexp.MustCompile(`github\.com/bnb-chain/tss-lib/v2/([A-Za-z0-9_/\.\(\)\*]+?)(\(|\.func\d|$)`)

// TopLibFrame extracts the first tss-lib function named in a Go stack dump.
func TopLibFrame(stack string) string {
	for _, ln := range strings.Split(stack, "\n") {
		ln = strings.TrimSpace(ln)
		if strings.HasPrefix(ln, "github.com/bnb-chain/tss-lib/v2/") {
			f := strings.TrimPrefix(ln, "github.com/bnb-chain/tss-lib/v2/")
			if i := strings.Index(f, "(0x"); i > 0 {
				f = f[:i]
			}
			if i := strings.Index(f, "({"); i > 0 {
				f = f[:i]
			}
			f = strings.TrimSuffix(f, "(...)")
			// drop closure suffixes so the signature names the enclosing function
			f = regexp.MustCompile(`\.func\d+(\.\d+)*$`).ReplaceAllString(f, "")
			f = regexp.MustCompile(`\.gowrap\d+$`).ReplaceAllString(f, "")
			return f
		}
	}
	return "?"
}

// ---------------------------------------------------------------- driver side

type KnownFinding struct {
	Property    string `json:"property"`
	Signature   string `json:"signature"`
	Status      string `json:"status"` // known | fixed
	Commit      string `json:"commit,omitempty"`
	Description string `json:"description"`
}

func loadKnown(path string) []KnownFinding {
	b, err := os.ReadFile(path)
	if err != nil {
		return nil
	}
	var out []KnownFinding
	if err := json.Unmarshal(b, &out); err != nil {
		fmt.Fprintln(os.Stderr, "known_findings.json unreadable:", err)
		os.Exit(2)
	}
	return out
}

type worker struct {
	cmd     *exec.Cmd
	stdin   io.WriteCloser
	stdout  *bufio.Reader
	errPath string
	lines   chan string
}

func startWorker(bin, id string, env []string, errPath string) (*worker, error) {
	cmd := exec.Command(bin, "-worker", id)
	cmd.Env = env
	stdin, err := cmd.StdinPipe()
	if err != nil {
		return nil, err
	}
	so, err := cmd.StdoutPipe()
	if err != nil {
		return nil, err
	}
	ef, err := os.OpenFile(errPath, os.O_CREATE|os.O_WRONLY|os.O_APPEND, 0o644)
	if err != nil {
		return nil, err
	}
	cmd.Stderr = ef
	if err := cmd.Start(); err != nil {
		return nil, err
	}
	ef.Close()
	w := &worker{cmd: cmd, stdin: stdin, stdout: bufio.NewReaderSize(so, 1<<20), errPath: errPath, lines: make(chan string, 16)}
	go func() {
		for {
			ln, err := w.stdout.ReadString('\n')
			if ln != "" {
				w.lines <- ln
			}
			if err != nil {
				close(w.lines)
				return
			}
		}
	}()
	return w, nil
}

func (w *worker) kill() {
	if w.cmd.Process != nil {
		w.cmd.Process.Kill()
	}
	w.cmd.Wait()
}

func cpuSeconds(pid int) float64 {
	b, err := os.ReadFile(fmt.Sprintf("/proc/%d/stat", pid))
	if err != nil {
		return -1
	}
	s := string(b)
	i := strings.LastIndex(s, ")")
	f := strings.Fields(s[i+1:])
	if len(f) < 14 {
		return -1
	}
	ut, _ := strconv.ParseFloat(f[11], 64)
	st, _ := strconv.ParseFloat(f[12], 64)
	return (ut + st) / 100.0
}

func tailOf(path string, from int64, max int) string {
	f, err := os.Open(path)
	if err != nil {
		return ""
	}
	defer f.Close()
	st, _ := f.Stat()
	if st.Size()-from > int64(max) {
		// keep the head (panic message and first goroutines), it matters more than the tail
		buf := make([]byte, max)
		f.ReadAt(buf, from)
		return string(buf)
	}
	buf := make([]byte, st.Size()-from)
	f.ReadAt(buf, from)
	return string(buf)
}

func fileSize(path string) int64 {
	st, err := os.Stat(path)
	if err != nil {
		return 0
	}
	return st.Size()
}

type outcome struct {
	res     Result
	suspect bool // watchdog fired: needs isolated confirmation
	c       Case
}

func caseTimeout(c Case, factor float64) time.Duration {
	cost := c.Cost
	if cost <= 0 {
		cost = 1
	}
	return time.Duration((90 + 60*cost) * factor * float64(time.Second))
}

// runCaseOn sends one case to a worker and waits for the answer, a crash or the watchdog.
func runCaseOn(w *worker, c Case, factor float64) (out outcome, alive bool) {
	out.c = c
	off := fileSize(w.errPath)
	b, _ := json.Marshal(c)
	if _, err := w.stdin.Write(append(b, '\n')); err != nil {
		// worker already dead
		w.kill()
		out.res = Result{ID: c.ID, Class: c.Class, Verdict: Inconclusive, Msg: "worker not accepting input: " + err.Error()}
		return out, false
	}
	t0 := time.Now()
	timer := time.NewTimer(caseTimeout(c, factor))
	defer timer.Stop()
	for {
		select {
		case ln, ok := <-w.lines:
			if !ok {
				// worker died mid-case
				w.cmd.Wait()
				dump := tailOf(w.errPath, off, 64<<10)
				res := Result{ID: c.ID, Class: c.Class, WallMs: time.Since(t0).Milliseconds(), Witness: dump}
				switch {
				case strings.Contains(dump, "all goroutines are asleep"):
					res.Verdict, res.Sig = Violated, "deadlock:"+TopLibFrame(dump)
					res.Msg = "Go runtime reported: all goroutines are asleep - deadlock"
				case strings.Contains(dump, "panic:") || strings.Contains(dump, "fatal error:"):
					res.Verdict, res.Sig = Violated, "crash:"+TopLibFrame(afterMarker(dump))
					res.Msg = "process died: " + Clip(firstLineWith(dump, "panic:", "fatal error:"), 300)
				default:
					res.Verdict = Inconclusive
					res.Msg = "worker exited without panic text: " + w.cmd.ProcessState.String()
				}
				out.res = res
				return out, false
			}
			if strings.HasPrefix(ln, "END ") {
				var r Result
				if err := json.Unmarshal([]byte(strings.TrimSpace(ln[4:])), &r); err != nil {
					r = Result{ID: c.ID, Class: c.Class, Verdict: Inconclusive, Msg: "unparseable worker answer: " + err.Error()}
				}
				out.res = r
				return out, true
			}
		case <-timer.C:
			cpu := cpuSeconds(w.cmd.Process.Pid)
			w.cmd.Process.Signal(syscall.SIGQUIT)
			done := make(chan struct{})
			go func() { w.cmd.Wait(); close(done) }()
			select {
			case <-done:
			case <-time.After(20 * time.Second):
				w.cmd.Process.Kill()
				<-done
			}
			dump := tailOf(w.errPath, off, 256<<10)
			out.suspect = true
			out.res = Result{ID: c.ID, Class: c.Class, Verdict: Inconclusive, WallMs: time.Since(t0).Milliseconds(),
				Msg:     fmt.Sprintf("watchdog after %s (process cpu %.1fs)", caseTimeout(c, factor), cpu),
				Sig:     "hang:" + blockedLibFrame(dump),
				Witness: dump}
			return out, false
		}
	}
}

func afterMarker(dump string) string {
	// the panicking goroutine is the first one listed after the panic message
	for _, m := range []string{"panic:", "fatal error:"} {
		if i := strings.Index(dump, m); i >= 0 {
			return dump[i:]
		}
	}
	return dump
}

func firstLineWith(s string, keys ...string) string {
	for _, ln := range strings.Split(s, "\n") {
		for _, k := range keys {
			if strings.Contains(ln, k) {
				return strings.TrimSpace(ln)
			}
		}
	}
	return ""
}

// blockedLibFrame finds, in a SIGQUIT goroutine dump, the first goroutine that is parked and has a tss-lib frame.
func blockedLibFrame(dump string) string {
	for _, g := range strings.Split(dump, "\n\ngoroutine ") {
		head := g
		if i := strings.Index(g, "\n"); i > 0 {
			head = g[:i]
		}
		if !(strings.Contains(head, "chan send") || strings.Contains(head, "chan receive") || strings.Contains(head, "semacquire") ||
			strings.Contains(head, "select") || strings.Contains(head, "sync.") || strings.Contains(head, "runnable") || strings.Contains(head, "running")) {
			continue
		}
		if f := TopLibFrame(g); f != "?" {
			return f
		}
	}
	return "?"
}

type Options struct {
	Bin       string
	ID        string
	Tier      string
	Seed      int64
	Root      string // /verif
	Repo      string
	ReplayOf  string
	OnlyCases string // substring filter (development aid)
}

func sanitize(s string) string {
	r := regexp.MustCompile(`[^A-Za-z0-9_.=-]+`).ReplaceAllString(s, "_")
	if len(r) > 120 {
		r = r[:120]
	}
	return r
}

// RunCheck is the driver entry point. Returns the process exit code.
func RunCheck(o Options) int {
	chk := Lookup(o.ID)
	if chk == nil {
		fmt.Println("unknown check", o.ID)
		return 2
	}
	t0 := time.Now()
	runDir := filepath.Join(o.Root, "run", fmt.Sprintf("%s-%s-%d", o.ID, o.Tier, os.Getpid()))
	os.MkdirAll(runDir, 0o755)
	defer os.RemoveAll(runDir)
	env := &Env{Tier: o.Tier, Seed: o.Seed, RunDir: runDir, Repo: o.Repo}

	if o.ReplayOf == "" && o.OnlyCases == "" {
		// witnesses of earlier runs of this property are stale now
		if old, _ := filepath.Glob(filepath.Join(o.Root, "replays", o.ID, "*.json")); len(old) > 0 {
			for _, f := range old {
				os.Remove(f)
			}
		}
	}
	var cases []Case
	if o.ReplayOf != "" {
		b, err := os.ReadFile(o.ReplayOf)
		if err != nil {
			fmt.Println("cannot read replay file:", err)
			return 2
		}
		var w struct {
			Case Case   `json:"case"`
			Seed int64  `json:"seed"`
			Tier string `json:"tier"`
		}
		if err := json.Unmarshal(b, &w); err != nil {
			fmt.Println("bad replay file:", err)
			return 2
		}
		cases = []Case{w.Case}
		if w.Tier != "" {
			env.Tier, o.Tier = w.Tier, w.Tier
		}
		env.Seed, o.Seed = w.Seed, w.Seed
	} else {
		cases = chk.Gen(o.Tier, o.Seed)
	}
	if o.OnlyCases != "" {
		var f []Case
		for _, c := range cases {
			if strings.Contains(c.ID, o.OnlyCases) {
				f = append(f, c)
			}
		}
		cases = f
	}
	seen := map[string]bool{}
	for _, c := range cases {
		if seen[c.ID] {
			fmt.Println("internal error: duplicate case id", c.ID)
			return 2
		}
		seen[c.ID] = true
	}
	// longest first
	order := make([]Case, len(cases))
	copy(order, cases)
	sort.SliceStable(order, func(i, j int) bool { return order[i].Cost > order[j].Cost })

	nw := chk.Workers
	if nw <= 0 {
		nw = runtime.NumCPU()
	}
	if nw > len(order) {
		nw = len(order)
	}
	if nw < 1 {
		nw = 1
	}
	wenv := append(os.Environ(),
		"VCHECK_TIER="+o.Tier, "VCHECK_SEED="+strconv.FormatInt(o.Seed, 10), "VCHECK_RUNDIR="+runDir, "VCHECK_REPO="+o.Repo,
		"GOTRACEBACK=all")
	if v := os.Getenv("VCHECK_GOMAXPROCS"); v != "" {
		wenv = append(wenv, "GOMAXPROCS="+v)
	} else if nw > 4 {
		wenv = append(wenv, "GOMAXPROCS=4")
	}
	if chk.Race {
		wenv = append(wenv, "GORACE=halt_on_error=0 log_path="+filepath.Join(runDir, "race.log"))
	}

	queue := make(chan Case, len(order))
	for _, c := range order {
		queue <- c
	}
	close(queue)
	var mu sync.Mutex
	var outs []outcome
	var wg sync.WaitGroup
	var suspects int32
	const maxSuspects, maxConfirmed = 12, 3
	for i := 0; i < nw; i++ {
		wg.Add(1)
		go func(i int) {
			defer wg.Done()
			errPath := filepath.Join(runDir, fmt.Sprintf("worker%d.stderr", i))
			var w *worker
			for c := range queue {
				if atomic.LoadInt32(&suspects) >= maxSuspects {
					// a tree on which this many cases do not return is broken; do not spend hours on the rest
					mu.Lock()
					outs = append(outs, outcome{c: c, res: Result{ID: c.ID, Class: c.Class, Verdict: Inconclusive, Msg: fmt.Sprintf("not run: %d cases had already hit the watchdog", maxSuspects)}})
					mu.Unlock()
					continue
				}
				if w == nil {
					var err error
					w, err = startWorker(o.Bin, o.ID, wenv, errPath)
					if err != nil {
						mu.Lock()
						outs = append(outs, outcome{c: c, res: Result{ID: c.ID, Class: c.Class, Verdict: Inconclusive, Msg: "cannot start worker: " + err.Error()}})
						mu.Unlock()
						continue
					}
				}
				oc, alive := runCaseOn(w, c, 1)
				if oc.suspect {
					atomic.AddInt32(&suspects, 1)
				}
				if !alive {
					w = nil
				} else if oc.res.Recycle {
					w.stdin.Close()
					w.kill()
					w = nil
				}
				mu.Lock()
				outs = append(outs, oc)
				mu.Unlock()
			}
			if w != nil {
				w.stdin.Close()
				w.cmd.Wait()
			}
		}(i)
	}
	wg.Wait()

	// isolated confirmation of watchdog suspects (nothing else running)
	unconfirmed, confirmed := 0, 0
	// cheapest suspects first: their allowance is the shortest
	var suspectIdx []int
	for i := range outs {
		if outs[i].suspect {
			suspectIdx = append(suspectIdx, i)
		}
	}
	sort.SliceStable(suspectIdx, func(a, b int) bool { return outs[suspectIdx[a]].c.Cost < outs[suspectIdx[b]].c.Cost })
	for _, i := range suspectIdx {
		if confirmed >= maxConfirmed {
			outs[i].res.Verdict = Inconclusive
			outs[i].res.Msg = fmt.Sprintf("watchdog fired; not re-run in isolation because %d other cases were already confirmed as not returning: %s", maxConfirmed, outs[i].res.Msg)
			continue
		}
		errPath := filepath.Join(runDir, fmt.Sprintf("confirm%d.stderr", i))
		w, err := startWorker(o.Bin, o.ID, wenv, errPath)
		if err != nil {
			continue
		}
		oc, alive := runCaseOn(w, outs[i].c, 2)
		if alive {
			w.stdin.Close()
			w.cmd.Wait()
		}
		if oc.suspect && oc.res.Sig == "hang:?" {
			// no goroutine with a library frame anywhere in the dump: the harness itself was still computing (reference
			// arithmetic, case too large for its allowance). That says nothing about the library.
			oc.res.Verdict = Inconclusive
			oc.res.Msg = "watchdog fired twice with no library frame on any stack (harness-side computation; case too large for its allowance): " + oc.res.Msg
			outs[i] = oc
			continue
		}
		if oc.suspect {
			first := outs[i].res
			confirmed++
			oc.res.Verdict = Violated
			oc.res.Msg = "no return within the watchdog in the parallel run AND in an isolated re-run with twice the allowance: " + first.Msg + " / " + oc.res.Msg
			outs[i] = oc
		} else {
			unconfirmed++
			if oc.res.Verdict == Held {
				oc.res.Count("watchdog_unconfirmed", 1)
			}
			outs[i] = oc
		}
	}

	if chk.CrashInconclusive {
		for i := range outs {
			if outs[i].res.Verdict == Violated && (strings.HasPrefix(outs[i].res.Sig, "crash:") || strings.HasPrefix(outs[i].res.Sig, "deadlock:") || strings.HasPrefix(outs[i].res.Sig, "hang:")) {
				outs[i].res.Verdict = Inconclusive
				outs[i].res.Msg = "process-level failure (judged by C06, not here): " + outs[i].res.Sig + " " + Clip(outs[i].res.Msg, 200)
			}
		}
	}
	var results []Result
	for _, oc := range outs {
		results = append(results, oc.res)
		results = append(results, oc.res.Extra...)
	}
	if chk.Post != nil {
		results = chk.Post(results, env)
	}
	raceBlocks := 0
	if chk.Race {
		raceBlocks = collectRaceReports(runDir, &results, o)
	}
	sort.SliceStable(results, func(i, j int) bool { return results[i].ID < results[j].ID })
	caseByID := map[string]Case{}
	for _, c := range cases {
		caseByID[c.ID] = c
	}

	known := loadKnown(filepath.Join(o.Root, "known_findings.json"))
	isKnown := func(sig string) *KnownFinding {
		for i := range known {
			if known[i].Property == o.ID && known[i].Status == "known" && known[i].Signature == sig {
				return &known[i]
			}
		}
		return nil
	}

	obs := map[string]int64{}
	sets := map[string]map[string]bool{}
	classes := map[string]bool{}
	var samples []any
	var inconcl []string
	knownHit := map[string]int{}
	violations := 0
	exit := 0
	for _, r := range results {
		for k, v := range r.Obs {
			obs[k] += v
		}
		for k, vs := range r.Sets {
			if sets[k] == nil {
				sets[k] = map[string]bool{}
			}
			for _, v := range vs {
				sets[k][v] = true
			}
		}
		switch r.Verdict {
		case Inconclusive:
			inconcl = append(inconcl, r.ID+": "+Clip(r.Msg, 200))
		case Violated:
			if kf := isKnown(r.Sig); kf != nil {
				knownHit[r.Sig]++
				if r.NonTrivial {
					classes[r.Class] = true
				}
				continue
			}
			violations++
			exit = 1
			dir := filepath.Join(o.Root, "replays", o.ID)
			os.MkdirAll(dir, 0o755)
			path := filepath.Join(dir, sanitize(r.ID)+".json")
			wb, _ := json.MarshalIndent(map[string]any{"property": o.ID, "tier": o.Tier, "seed": o.Seed, "case": caseByID[r.ID], "result": r}, "", " ")
			os.WriteFile(path, wb, 0o644)
			fmt.Printf("VIOLATION property=%s replay=%s\n", o.ID, path)
			fmt.Printf("  case=%s sig=%q\n  %s\n", r.ID, r.Sig, Clip(r.Msg, 1200))
		default:
			if r.NonTrivial {
				classes[r.Class] = true
			}
		}
		if o.OnlyCases != "" && r.Sample != nil {
			sb, _ := json.MarshalIndent(r.Sample, "  ", " ")
			fmt.Printf("  [%s] %s %s\n  sample: %s\n", r.Verdict, r.ID, Clip(r.Msg, 300), sb)
		}
		if r.Sample != nil && len(samples) < 4 {
			samples = append(samples, r.Sample)
		}
	}
	var sigs []string
	for s := range knownHit {
		sigs = append(sigs, s)
	}
	sort.Strings(sigs)
	for _, s := range sigs {
		kf := isKnown(s)
		fmt.Printf("KNOWN-FINDING: property=%s %s [%s] (%d case(s) this run)\n", o.ID, kf.Description, s, knownHit[s])
	}
	if len(samples) == 0 {
		for i := 0; i < len(cases) && i < 3; i++ {
			samples = append(samples, cases[i])
		}
	}
	missing := []string{}
	for _, k := range chk.MinEvents {
		if obs[k] == 0 {
			missing = append(missing, k)
		}
	}

	cov := map[string]any{
		"evaluations":          len(results),
		"distinct_nontrivial":  len(classes),
		"rule":                 chk.Rule,
		"samples":              samples,
		"observed":             obs,
		"inconclusive":         len(inconcl),
		"inconclusive_cases":   firstN(inconcl, 20),
		"known_findings_hit":   knownHit,
		"watchdog_unconfirmed": unconfirmed,
		"exhaustive":           false,
	}
	if chk.Race {
		cov["race_report_blocks"] = raceBlocks
	}
	setSummary := map[string]any{}
	for k, m := range sets {
		var l []string
		for v := range m {
			l = append(l, v)
		}
		sort.Strings(l)
		setSummary[k] = map[string]any{"distinct": len(l), "examples": firstN(l, 12)}
	}
	cov["distinct_sets"] = setSummary
	if v, ok := obs["exhaustive_spaces"]; ok && v > 0 {
		cov["exhaustive_subspaces"] = v
	}
	assumptions := chk.Assumptions
	if assumptions == nil {
		assumptions = []string{}
	}
	ev := map[string]any{
		"property_id": o.ID,
		"tier":        o.Tier,
		"seed":        o.Seed,
		"level":       chk.Level,
		"coverage":    cov,
		"assumptions": assumptions,
		"wall_s":      time.Since(t0).Seconds(),
		"violations":  violations,
	}
	if o.ReplayOf == "" && o.OnlyCases == "" && os.Getenv("VCHECK_NOEVIDENCE") == "" {
		os.MkdirAll(filepath.Join(o.Root, "evidence"), 0o755)
		eb, _ := json.MarshalIndent(ev, "", " ")
		os.WriteFile(filepath.Join(o.Root, "evidence", o.ID+".json"), eb, 0o644)
	}
	fmt.Printf("%s %s seed=%d: %d results, %d distinct non-trivial classes, %d inconclusive, %d known-finding sig(s), %d violation(s), %.1fs\n",
		o.ID, o.Tier, o.Seed, len(results), len(classes), len(inconcl), len(knownHit), violations, time.Since(t0).Seconds())
	keys := make([]string, 0, len(obs))
	for k := range obs {
		keys = append(keys, k)
	}
	sort.Strings(keys)
	for _, k := range keys {
		fmt.Printf("  observed %-40s %d\n", k, obs[k])
	}
	for k, v := range setSummary {
		fmt.Printf("  distinct %-40s %d\n", k, v.(map[string]any)["distinct"])
	}
	for _, s := range firstN(inconcl, 10) {
		fmt.Println("  inconclusive:", s)
	}
	if exit == 0 && len(missing) > 0 && o.ReplayOf == "" && o.OnlyCases == "" {
		fmt.Printf("BROKEN RUN: monitors observed no events of kind %v\n", missing)
		return 2
	}
	if exit == 0 && len(results) > 0 && len(inconcl)*2 > len(results) && o.ReplayOf == "" {
		fmt.Println("BROKEN RUN: more than half of the cases were inconclusive")
		return 2
	}
	return exit
}

func firstN(l []string, n int) []string {
	if len(l) > n {
		return l[:n]
	}
	return l
}

var raceSplit = regexp.MustCompile(`(?m)^==================$`)

// collectRaceReports turns every distinct race report (by outermost tss-lib frame pair) into a violation result.
func collectRaceReports(runDir string, results *[]Result, o Options) int {
	files, _ := filepath.Glob(filepath.Join(runDir, "race.log*"))
	blocks := 0
	seen := map[string]bool{}
	for _, f := range files {
		b, err := os.ReadFile(f)
		if err != nil {
			continue
		}
		for _, blk := range raceSplit.Split(string(b), -1) {
			if !strings.Contains(blk, "WARNING: DATA RACE") {
				continue
			}
			blocks++
			var frames []string
			for _, part := range strings.Split(blk, "\n\n") {
				if strings.Contains(part, "by goroutine") || strings.Contains(part, "by main goroutine") {
					frames = append(frames, TopLibFrame(part))
				}
			}
			sort.Strings(frames)
			sig := "race:" + strings.Join(frames, "|")
			if seen[sig] {
				continue
			}
			seen[sig] = true
			*results = append(*results, Result{ID: "race-report/" + sig, Class: "race", Verdict: Violated, Sig: sig,
				Msg: "Go race detector: " + Clip(blk, 1500), Witness: blk})
		}
	}
	return blocks
}
