package checks

import (
	"context"
	"crypto/rand"
	"errors"
	"fmt"
	"io"
	"math/big"
	"runtime"
	"strings"
	"sync/atomic"
	"syscall"
	"time"

	"github.com/bnb-chain/tss-lib/v2/common"
	"github.com/bnb-chain/tss-lib/v2/crypto"
	"github.com/bnb-chain/tss-lib/v2/ecdsa/keygen"

	"verif/core"
	"verif/ref"
)

// C19 — generated primes and pre-parameters have the structure the proofs assume.

func init() {
	core.Register(&core.Check{
		ID:    "C19",
		Race:  true, // the generator runs its search in several goroutines: the workload runs under the race detector
		Level: "exploration",
		Rule: "GetRandomSafePrimesConcurrent: bit lengths 6..24 x concurrency {1,2,4,16} x numPrimes {1,2,3} x repeated calls (quick 60, thorough 200 per cell), 64..512 bits x 20, 1024 x 2 (thorough); every returned pair checked with an independent primality test; " +
			"a call that does not return is decided by the goroutine dump (caller parked in WaitGroup.Wait while a generator is parked in chan send = permanent), cancellation / entropy failure injected at the k-th read of an instrumented reader (logical instants); " +
			"samplers on bounds {1,2,3,4,5,7,8,9,16,25,27,2^61-1,2048-bit}; the 5 vendored pre-parameter sets (+1 generated in thorough). Class = (function, bit length / bound class, concurrency, numPrimes).",
		Assumptions: []string{"stdlib ProbablyPrime(40)+trial division as the primality oracle", "a goroutine parked in `chan send` on a channel whose only receiver has returned is blocked forever"},
		Gen:         c19Gen,
		Run:         c19Run,
		MinEvents:   []string{"safe_prime_pairs_checked", "cancellations_injected", "sampler_values_checked", "preparams_checked"},
	})
}

func c19Gen(tier string, seed int64) []core.Case {
	var cs []core.Case
	calls := tierN(tier, 60, 200)
	for bits := 6; bits <= 24; bits += 1 {
		if tier != "thorough" && bits > 12 && bits%4 != 0 {
			continue
		}
		for _, conc := range []int{1, 2, 4, 16} {
			for _, np := range []int{1, 2, 3} {
				id := fmt.Sprintf("safeprimes/%dbit/conc%d/n%d", bits, conc, np)
				cs = append(cs, core.Case{ID: id, Class: id, Kind: "safeprimes", Cost: 1,
					P: core.P{"bits": bits, "conc": conc, "np": np, "calls": calls}})
			}
		}
	}
	for _, bits := range []int{32, 64, 128, 256, 512} {
		for _, conc := range []int{1, 4} {
			id := fmt.Sprintf("safeprimes/%dbit/conc%d/n2", bits, conc)
			c := 20
			if bits >= 256 {
				c = tierN(tier, 3, 20)
			}
			cs = append(cs, core.Case{ID: id, Class: id, Kind: "safeprimes", Cost: float64(bits) / 32,
				P: core.P{"bits": bits, "conc": conc, "np": 2, "calls": c}})
		}
	}
	if tier == "thorough" {
		cs = append(cs, core.Case{ID: "safeprimes/1024bit/conc8/n2", Class: "safeprimes/1024bit/conc8/n2", Kind: "safeprimes", Cost: 120,
			P: core.P{"bits": 1024, "conc": 8, "np": 2, "calls": 2}})
		cs = append(cs, core.Case{ID: "preparams/generated", Class: "preparams/generated", Kind: "genpre", Cost: 400})
	}
	for _, bits := range []int{8, 16, 64, 256} {
		for _, mode := range []string{"cancel", "failread"} {
			id := fmt.Sprintf("inject/%s/%dbit", mode, bits)
			cs = append(cs, core.Case{ID: id, Class: id, Kind: "inject", Cost: 2, P: core.P{"bits": bits, "mode": mode, "n": tierN(tier, 30, 150)}})
		}
	}
	cs = append(cs, core.Case{ID: "args/refused", Class: "args/refused", Kind: "args", Cost: 1})
	cs = append(cs, core.Case{ID: "samplers/bounds", Class: "samplers/bounds", Kind: "samplers", Cost: 3, P: core.P{"n": tierN(tier, 300, 3000)}})
	cs = append(cs, core.Case{ID: "samplers/no-valid-value", Class: "samplers/no-valid-value", Kind: "degenerate", Cost: 1})
	for i := 0; i < 5; i++ {
		id := fmt.Sprintf("preparams/vendored%d", i)
		cs = append(cs, core.Case{ID: id, Class: id, Kind: "vendored", Cost: 3, P: core.P{"i": i}})
	}
	cs = append(cs, core.Case{ID: "preparams/cancel", Class: "preparams/cancel", Kind: "precancel", Cost: 10})
	cs = append(cs, core.Case{ID: "ntilde/generate", Class: "ntilde/generate", Kind: "ntilde", Cost: 2})
	return cs
}

func allStacks() string {
	buf := make([]byte, 1<<20)
	for {
		n := runtime.Stack(buf, true)
		if n < len(buf) {
			return string(buf[:n])
		}
		buf = make([]byte, 2*len(buf))
	}
}

// goroutinesWith returns the goroutines that have a *frame* (not merely a "created by" line) mentioning needle.
// A goroutine that has already run its deferred calls and sits in runtime.goexit has no such frame.
func goroutinesWith(dump, needle string) []string {
	var out []string
	for _, g := range strings.Split(dump, "\n\n") {
		for _, ln := range strings.Split(g, "\n") {
			if strings.HasPrefix(ln, "created by") || strings.HasPrefix(ln, "\t") {
				continue
			}
			if strings.Contains(ln, needle) {
				out = append(out, g)
				break
			}
		}
	}
	return out
}

// lingering returns the goroutines with a frame matching needle that are still there after a grace of up to
// 200 scheduler yields/milliseconds: a goroutine caught between its deferred wg.Done() and its exit is not a leak,
// one that is parked or still generating is.
func lingering(needle string) []string {
	var left []string
	for i := 0; i < 200; i++ {
		left = goroutinesWith(allStacks(), needle)
		if len(left) == 0 {
			return nil
		}
		runtime.Gosched()
		time.Sleep(time.Millisecond)
	}
	return left
}

// countingReader wraps crypto/rand and triggers at the k-th read.
type countingReader struct {
	n       int64
	trigger int64
	onTrig  func()
	failAt  int64 // reads >= failAt (>0) return an error
	after   int64 // reads counted after the trigger fired
	fired   int32
}

func (c *countingReader) Read(p []byte) (int, error) {
	n := atomic.AddInt64(&c.n, 1)
	if atomic.LoadInt32(&c.fired) == 1 {
		atomic.AddInt64(&c.after, 1)
	}
	if c.trigger > 0 && n == c.trigger {
		if c.onTrig != nil {
			c.onTrig()
		}
		// only reads that start after cancel() has returned count as "after the cancellation"
		atomic.StoreInt32(&c.fired, 1)
	}
	if c.failAt > 0 && n >= c.failAt {
		atomic.StoreInt32(&c.fired, 1)
		return 0, errors.New("injected entropy failure")
	}
	return rand.Read(p)
}

type spResult struct {
	sgps []*common.GermainSafePrime
	err  error
}

// callSafePrimes runs one call with a deadlock monitor. ok=false means the call did not return and the
// goroutine dump shows the permanent state described in the rule (dump returned as witness).
func callSafePrimes(ctx context.Context, bits, np, conc int, rd io.Reader, wall time.Duration) (res spResult, returned bool, deadlock bool, dump string) {
	ch := make(chan spResult, 1)
	cpu0 := processCPU()
	go func() {
		s, e := common.GetRandomSafePrimesConcurrent(ctx, bits, np, conc, rd)
		ch <- spResult{s, e}
	}()
	select {
	case res = <-ch:
		return res, true, false, ""
	case <-time.After(wall):
		dump = allStacks()
		// computing without end is told apart from a loaded machine by the CPU time the process consumed during the call:
		// a pair of up to 64 bits costs milliseconds, so tens of CPU-seconds with the generators still running is a verdict
		if spent := processCPU() - cpu0; bits <= 64 && spent > 20*time.Second {
			running := 0
			for _, g := range goroutinesWith(dump, "runGenPrimeRoutine") {
				if h := strings.SplitN(g, "\n", 2)[0]; strings.Contains(h, "running") || strings.Contains(h, "runnable") {
					running++
				}
			}
			if running > 0 {
				return res, false, false, fmt.Sprintf("SPIN cpu=%s running_generators=%d\n%s", spent.Round(time.Second), running, dump)
			}
		}
		callers := goroutinesWith(dump, "GetRandomSafePrimesConcurrent")
		parkedCaller := false
		for _, g := range callers {
			if strings.Contains(g, "sync.(*WaitGroup).Wait") {
				parkedCaller = true
			}
		}
		parkedGen := false
		for _, g := range goroutinesWith(dump, "runGenPrimeRoutine") {
			if strings.Contains(strings.SplitN(g, "\n", 2)[0], "chan send") {
				parkedGen = true
			}
		}
		return res, false, parkedCaller && parkedGen, dump
	}
}

func checkPair(r *core.Result, sgp *common.GermainSafePrime, bits int) {
	q, p := sgp.Prime(), sgp.SafePrime()
	r.Count("safe_prime_pairs_checked", 1)
	if q == nil || p == nil {
		r.Fail("pair-nil", "nil prime in result")
		return
	}
	if !ref.IsPrime(q) {
		r.Fail("q-composite", "q=%s is not prime (%d bits requested)", hx(q), bits)
	}
	if !ref.IsPrime(p) {
		r.Fail("p-composite", "p=%s is not prime (%d bits requested)", hx(p), bits)
	}
	if new(big.Int).Add(new(big.Int).Lsh(q, 1), big1).Cmp(p) != 0 {
		r.Fail("p!=2q+1", "p != 2q+1")
	}
	if p.BitLen() != bits {
		r.Fail("p-bitlen", "p has %d bits, %d requested", p.BitLen(), bits)
	}
	if p.Bit(bits-1) != 1 || p.Bit(bits-2) != 1 {
		r.Fail("p-topbits", "top two bits of p=%s not set (%d bits)", hx(p), bits)
	}
	if !sgp.Validate() {
		r.Fail("validate", "returned pair fails its own Validate()")
	}
}

func wallFor(bits int) time.Duration {
	switch {
	case bits <= 64:
		return 60 * time.Second
	case bits <= 256:
		return 5 * time.Minute
	case bits <= 512:
		return 20 * time.Minute
	}
	return 2 * time.Hour
}

func c19Run(c core.Case, env *core.Env) core.Result {
	r := res(c)
	switch c.Kind {
	case "safeprimes":
		bits, conc, np, calls := c.P.Int("bits"), c.P.Int("conc"), c.P.Int("np"), c.P.Int("calls")
		for i := 0; i < calls; i++ {
			out, returned, dl, dump := callSafePrimes(context.Background(), bits, np, conc, rand.Reader, wallFor(bits))
			r.Count("safe_prime_calls", 1)
			if !returned {
				r.Recycle = true
				if dl {
					r.Fail("deadlock:GetRandomSafePrimesConcurrent", "call %d/%d (bits=%d conc=%d numPrimes=%d) never returns: the caller is parked in WaitGroup.Wait and a generator goroutine is parked in `chan send` on primeCh, whose only receiver has returned", i, calls, bits, conc, np)
					r.Witness = dump
				} else if strings.HasPrefix(dump, "SPIN ") {
					r.Fail("no-return:GetRandomSafePrimesConcurrent:spinning", "call %d/%d (bits=%d conc=%d numPrimes=%d) has not returned after %s and the generator goroutines are still computing (%s); a pair of this size takes milliseconds", i, calls, bits, conc, np, wallFor(bits), strings.SplitN(dump, "\n", 2)[0])
					r.Witness = dump
				} else {
					r.Inconcl("call %d did not return within %s but the dump does not show the deadlock pattern", i, wallFor(bits))
					r.Witness = dump
				}
				return r
			}
			if out.err != nil {
				r.Fail("unexpected-error", "bits=%d conc=%d np=%d: %v", bits, conc, np, out.err)
				continue
			}
			if len(out.sgps) != np {
				r.Fail("count", "got %d pairs, %d requested", len(out.sgps), np)
			}
			for _, s := range out.sgps {
				checkPair(&r, s, bits)
			}
			if left := lingering("runGenPrimeRoutine"); len(left) > 0 {
				r.Fail("goroutine-left", "%d generator goroutine(s) still exist after the call returned", len(left))
				r.Witness = strings.Join(left, "\n\n")
			}
			r.Count("leak_checks", 1)
		}
		r.NonTrivial = r.Obs["safe_prime_pairs_checked"] > 0
		if bits == 8 && conc == 2 && np == 2 {
			r.Sample = map[string]any{"case": c.ID, "calls": calls, "pairs_checked": r.Obs["safe_prime_pairs_checked"]}
		}
	case "inject":
		c19Inject(&r, c.P.Int("bits"), c.P.Str("mode"), c.P.Int("n"), env.Seed)
	case "args":
		if _, err := common.GetRandomSafePrimesConcurrent(context.Background(), 5, 1, 1, rand.Reader); err == nil {
			r.Fail("args-bits", "bit length 5 accepted")
		}
		if _, err := common.GetRandomSafePrimesConcurrent(context.Background(), 16, 0, 1, rand.Reader); err == nil {
			r.Fail("args-num", "numPrimes 0 accepted")
		}
		ctx, cancel := context.WithCancel(context.Background())
		cancel()
		out, returned, dl, dump := callSafePrimes(ctx, 512, 1, 2, rand.Reader, 2*time.Minute)
		if !returned {
			r.Recycle = true
			if dl {
				r.Fail("deadlock:GetRandomSafePrimesConcurrent", "call with an already-cancelled context never returns")
			} else {
				r.Inconcl("pre-cancelled call did not return in time")
			}
			r.Witness = dump
		} else if out.err == nil && len(out.sgps) != 1 {
			r.Fail("precancelled", "pre-cancelled context: neither an error nor a complete result")
		}
		r.Count("cancellations_injected", 1)
		r.NonTrivial = true
	case "samplers":
		c19Samplers(&r, c.P.Int("n"), env.Seed)
	case "degenerate":
		c19Degenerate(&r)
	case "vendored":
		pp, err := PreParams(env.Repo)
		if err != nil {
			r.Inconcl("fixtures: %v", err)
			return r
		}
		c19PreParams(&r, &pp[c.P.Int("i")], pp, c.P.Int("i"))
		r.NonTrivial = true
		r.Sample = map[string]any{"case": c.ID, "paillier_bits": pp[c.P.Int("i")].PaillierSK.N.BitLen(), "ntilde_bits": pp[c.P.Int("i")].NTildei.BitLen()}
	case "genpre":
		ctx, cancel := context.WithTimeout(context.Background(), 100*time.Minute)
		defer cancel()
		pp, err := keygen.GeneratePreParamsWithContextAndRandom(ctx, rand.Reader, 16)
		if err != nil {
			r.Inconcl("pre-parameter generation failed: %v", err)
			return r
		}
		c19PreParams(&r, pp, nil, -1)
		if !pp.ValidateWithProof() {
			r.Fail("pre-validate", "generated pre-parameters fail ValidateWithProof")
		}
		r.NonTrivial = true
	case "precancel":
		c19PreCancel(&r)
	case "ntilde":
		c19NTilde(&r, env)
	}
	return r
}

func c19Inject(r *core.Result, bits int, mode string, n int, seed int64) {
	rg := rng(seed, fmt.Sprint("c19inject", bits, mode))
	for i := 0; i < n; i++ {
		conc := []int{1, 2, 4, 8}[rg.Intn(4)]
		np := 1 + rg.Intn(3)
		k := int64(1 + rg.Intn(40))
		if bits >= 64 {
			k = int64(1 + rg.Intn(400))
		}
		ctx, cancel := context.WithCancel(context.Background())
		rd := &countingReader{}
		if mode == "cancel" {
			rd.trigger, rd.onTrig = k, cancel
		} else {
			rd.failAt = k
		}
		out, returned, dl, dump := callSafePrimes(ctx, bits, np, conc, rd, wallFor(bits))
		r.Count("cancellations_injected", 1)
		if !returned {
			cancel()
			r.Recycle = true
			if dl {
				r.Fail("deadlock:GetRandomSafePrimesConcurrent", "%s at read %d (bits=%d conc=%d np=%d): the call never returns (caller in WaitGroup.Wait, generator in chan send)", mode, k, bits, conc, np)
			} else {
				r.Inconcl("%s at read %d: no return within the allowance, no deadlock pattern in the dump", mode, k)
			}
			r.Witness = dump
			return
		}
		fired := atomic.LoadInt32(&rd.fired) == 1
		if out.err == nil {
			// finishing before (or despite) the injection is fine, but then the result must be complete and valid
			if len(out.sgps) != np {
				r.Fail("inject-partial", "%s: no error but %d of %d pairs", mode, len(out.sgps), np)
			}
			for _, s := range out.sgps {
				checkPair(r, s, bits)
			}
			r.Count("inject_completed_anyway", 1)
		} else {
			r.Count("inject_error_returned", 1)
			if !fired {
				r.Fail("inject-spurious-error", "error %v although nothing was injected yet", out.err)
			}
		}
		if fired {
			after := atomic.LoadInt64(&rd.after)
			// every generator checks the context once per candidate: at most one further read each (+ the triggering one)
			if mode == "cancel" && after > int64(2*conc+2) {
				r.Fail("cancel-not-prompt", "%d entropy reads after the context was cancelled (concurrency %d)", after, conc)
			}
			r.Count("reads_after_injection", after)
		}
		if left := lingering("runGenPrimeRoutine"); len(left) > 0 {
			r.Fail("goroutine-left", "%d generator goroutine(s) left after %s", len(left), mode)
			r.Witness = strings.Join(left, "\n\n")
		}
		cancel()
	}
	r.NonTrivial = r.Obs["inject_error_returned"] > 0
	r.Sample = map[string]any{"case": "inject/" + mode, "bits": bits, "injections": n, "errors_returned": r.Obs["inject_error_returned"], "completed_anyway": r.Obs["inject_completed_anyway"]}
}

func c19Samplers(r *core.Result, n int, seed int64) {
	bounds := []*big.Int{}
	for _, v := range []int64{1, 2, 3, 4, 5, 7, 8, 9, 15, 16, 17, 25, 27, 49, 255, 256, 257, 1 << 31} {
		bounds = append(bounds, big.NewInt(v))
	}
	m61 := new(big.Int).Sub(new(big.Int).Lsh(big1, 61), big1)
	bounds = append(bounds, m61, new(big.Int).Lsh(big1, 64), secQ, new(big.Int).Sub(new(big.Int).Lsh(big1, 2048), big.NewInt(159)))
	rg := rng(seed, "c19samplers")
	for _, b := range bounds {
		reps := n
		if b.BitLen() > 64 {
			reps = n / 10
		}
		seen := map[string]bool{}
		for i := 0; i < reps; i++ {
			v := common.GetRandomPositiveInt(rand.Reader, b)
			if v == nil || v.Sign() < 0 || v.Cmp(b) >= 0 {
				r.Fail("GetRandomPositiveInt-range", "GetRandomPositiveInt(%s) = %s", hx(b), hx(v))
			}
			if v != nil {
				seen[v.String()] = true
			}
			r.Count("sampler_values_checked", 1)
		}
		// tiny bounds: every admissible value must be reachable (the sampler must not silently exclude one)
		if b.BitLen() <= 4 && reps >= 300 && int64(len(seen)) != b.Int64() {
			r.Fail("GetRandomPositiveInt-coverage", "GetRandomPositiveInt(%s): only %d distinct values in %d draws", b, len(seen), reps)
		}
		if b.Cmp(big1) > 0 {
			seenU := map[string]bool{}
			for i := 0; i < reps; i++ {
				v := common.GetRandomPositiveRelativelyPrimeInt(rand.Reader, b)
				if v == nil || v.Sign() <= 0 || v.Cmp(b) >= 0 || new(big.Int).GCD(nil, nil, v, b).Cmp(big1) != 0 {
					r.Fail("RelativelyPrime-range", "GetRandomPositiveRelativelyPrimeInt(%s) = %s", hx(b), hx(v))
				}
				if v != nil {
					seenU[v.String()] = true
				}
				r.Count("sampler_values_checked", 1)
			}
			if b.BitLen() <= 4 && reps >= 300 {
				units := 0
				for k := int64(1); k < b.Int64(); k++ {
					if new(big.Int).GCD(nil, nil, big.NewInt(k), b).Cmp(big1) == 0 {
						units++
					}
				}
				if len(seenU) != units {
					r.Fail("RelativelyPrime-coverage", "bound %s: %d distinct units drawn, %d exist", b, len(seenU), units)
				}
			}
		}
	}
	// quadratic non-residues for odd non-square moduli
	for _, nn := range []*big.Int{big.NewInt(3), big.NewInt(5), big.NewInt(7), big.NewInt(15), big.NewInt(21), big.NewInt(35), big.NewInt(27), m61, new(big.Int).Mul(m61, big.NewInt(7))} {
		for i := 0; i < n/10+5; i++ {
			w := common.GetRandomQuadraticNonResidue(rand.Reader, nn)
			if w == nil || w.Sign() < 0 || w.Cmp(nn) >= 0 || big.Jacobi(w, nn) != -1 {
				r.Fail("nonresidue", "GetRandomQuadraticNonResidue(%s) = %s", hx(nn), hx(w))
			}
			r.Count("sampler_values_checked", 1)
		}
	}
	// MustGetRandomInt(bits) in [0, 2^bits)
	for _, bits := range []int{1, 2, 3, 8, 64, 256, 5000} {
		lim := new(big.Int).Lsh(big1, uint(bits))
		for i := 0; i < n/10+5; i++ {
			v := common.MustGetRandomInt(rand.Reader, bits)
			if v.Sign() < 0 || v.Cmp(lim) >= 0 {
				r.Fail("MustGetRandomInt-range", "MustGetRandomInt(%d) = %s", bits, hx(v))
			}
			r.Count("sampler_values_checked", 1)
		}
	}
	// primes of a requested size
	for _, bits := range []int{2, 3, 8, 16, 64, 256} {
		for i := 0; i < 20; i++ {
			v := common.GetRandomPrimeInt(rand.Reader, bits)
			if v == nil || !ref.IsPrime(v) || v.BitLen() != bits {
				r.Fail("GetRandomPrimeInt", "GetRandomPrimeInt(%d) = %s", bits, hx(v))
			}
			r.Count("sampler_values_checked", 1)
		}
	}
	// squares generating QR_N for a safe-prime product
	sp := big.NewInt(23 * 47) // 23=2*11+1, 47=2*23+1
	for i := 0; i < n/10+5; i++ {
		g := common.GetRandomGeneratorOfTheQuadraticResidue(rand.Reader, sp)
		if g.Sign() <= 0 || g.Cmp(sp) >= 0 || new(big.Int).GCD(nil, nil, g, sp).Cmp(big1) != 0 ||
			big.Jacobi(g, big.NewInt(23)) != 1 || big.Jacobi(g, big.NewInt(47)) != 1 {
			r.Fail("qr-generator", "GetRandomGeneratorOfTheQuadraticResidue(1081) = %s is not a unit square", g)
		}
		r.Count("sampler_values_checked", 1)
	}
	_ = rg
	// refused arguments
	if common.GetRandomPositiveInt(rand.Reader, big.NewInt(0)) != nil || common.GetRandomPositiveInt(rand.Reader, big.NewInt(-5)) != nil || common.GetRandomPositiveInt(rand.Reader, nil) != nil {
		r.Fail("GetRandomPositiveInt-bound<=0", "non-nil result for a bound <= 0")
	}
	if common.GetRandomPositiveRelativelyPrimeInt(rand.Reader, big.NewInt(0)) != nil {
		r.Fail("RelativelyPrime-bound<=0", "non-nil result for bound 0")
	}
	r.NonTrivial = true
	r.Sample = map[string]any{"case": "samplers/bounds", "bounds": []string{"1", "2", "3", "4", "5", "7", "8", "9", "15", "16", "17", "25", "27", "49", "255..257", "2^31", "2^61-1", "2^64", "q", "2048-bit"}}
}

// c19Degenerate: arguments for which no admissible value exists. The call must still come back.
func c19Degenerate(r *core.Result) {
	probe := func(name string, f func()) {
		done := make(chan struct{})
		go func() { defer func() { recover(); close(done) }(); f() }()
		select {
		case <-done:
			r.Count("degenerate_returned", 1)
		case <-time.After(20 * time.Second):
			d := allStacks()
			r.Recycle = true
			spinning := ""
			for _, g := range goroutinesWith(d, "tss-lib/v2/common.") {
				if strings.Contains(g, "c19Degenerate") {
					spinning = g
				}
			}
			r.Fail("spin:"+name, "%s does not return (20 s; a normal call takes microseconds): no admissible value exists and the retry loop has no exit", name)
			r.Witness += spinning + "\n\n"
		}
	}
	var v1, v2 *big.Int
	probe("GetRandomPositiveRelativelyPrimeInt(1)", func() { v1 = common.GetRandomPositiveRelativelyPrimeInt(rand.Reader, big.NewInt(1)) })
	if r.Verdict != core.Violated {
		probe("GetRandomPrimeInt(1)", func() { v2 = common.GetRandomPrimeInt(rand.Reader, 1) })
	}
	if v1 != nil || v2 != nil {
		r.Fail("degenerate-value", "a value was returned although none is admissible: %v %v", v1, v2)
	}
	r.Count("sampler_values_checked", 2)
	r.NonTrivial = true
}

func c19PreParams(r *core.Result, pp *keygen.LocalPreParams, all []keygen.LocalPreParams, self int) {
	r.Count("preparams_checked", 1)
	sk := pp.PaillierSK
	c14KeyStructure(r, sk, &sk.PublicKey, 2048)
	if pp.NTildei.BitLen() != 2048 {
		r.Fail("ntilde-bits", "NTilde has %d bits", pp.NTildei.BitLen())
	}
	P := new(big.Int).Add(new(big.Int).Lsh(pp.P, 1), big1)
	Q := new(big.Int).Add(new(big.Int).Lsh(pp.Q, 1), big1)
	if new(big.Int).Mul(P, Q).Cmp(pp.NTildei) != 0 {
		r.Fail("ntilde-factors", "NTilde != (2p+1)(2q+1)")
	}
	for _, v := range []*big.Int{pp.P, pp.Q, P, Q} {
		if !ref.IsPrime(v) {
			r.Fail("ntilde-primes", "%s is not prime", hx(v))
		}
	}
	if pp.P.Cmp(pp.Q) == 0 {
		r.Fail("ntilde-p=q", "p == q")
	}
	for _, v := range []*big.Int{P, Q} {
		if v.Cmp(sk.P) == 0 || v.Cmp(sk.Q) == 0 {
			r.Fail("ntilde-shares-paillier-prime", "NTilde shares a prime with the Paillier modulus")
		}
	}
	if new(big.Int).GCD(nil, nil, pp.NTildei, sk.N).Cmp(big1) != 0 {
		r.Fail("ntilde-gcd", "gcd(NTilde, N) != 1")
	}
	for name, h := range map[string]*big.Int{"h1": pp.H1i, "h2": pp.H2i} {
		if h.Cmp(big1) <= 0 || h.Cmp(pp.NTildei) >= 0 || new(big.Int).GCD(nil, nil, h, pp.NTildei).Cmp(big1) != 0 {
			r.Fail("h-range", "%s not a unit in (1,NTilde)", name)
		}
		if big.Jacobi(h, P) != 1 || big.Jacobi(h, Q) != 1 {
			r.Fail("h-not-square", "%s is not a square modulo NTilde", name)
		}
		// a square of full order pq: h^(pq) = 1 and h^p != 1, h^q != 1
		pq := new(big.Int).Mul(pp.P, pp.Q)
		if new(big.Int).Exp(h, pq, pp.NTildei).Cmp(big1) != 0 {
			r.Fail("h-order", "%s^(pq) != 1", name)
		}
		if new(big.Int).Exp(h, pp.P, pp.NTildei).Cmp(big1) == 0 || new(big.Int).Exp(h, pp.Q, pp.NTildei).Cmp(big1) == 0 {
			r.Fail("h-small-order", "%s does not generate the squares", name)
		}
	}
	if new(big.Int).Exp(pp.H1i, pp.Alpha, pp.NTildei).Cmp(pp.H2i) != 0 {
		r.Fail("h2!=h1^alpha", "h2 != h1^alpha")
	}
	if new(big.Int).Exp(pp.H2i, pp.Beta, pp.NTildei).Cmp(pp.H1i) != 0 {
		r.Fail("h1!=h2^beta", "h1 != h2^beta")
	}
	pq := new(big.Int).Mul(pp.P, pp.Q)
	ab := new(big.Int).Mul(pp.Alpha, pp.Beta)
	if ab.Mod(ab, pq).Cmp(big1) != 0 {
		r.Fail("alpha*beta", "alpha*beta != 1 mod pq")
	}
	if pp.H1i.Cmp(pp.H2i) == 0 {
		r.Fail("h1=h2", "h1 == h2")
	}
	if !pp.ValidateWithProof() {
		r.Fail("validate", "ValidateWithProof false")
	}
	for j := range all {
		if j == self {
			continue
		}
		if all[j].NTildei.Cmp(pp.NTildei) == 0 || all[j].PaillierSK.N.Cmp(sk.N) == 0 {
			r.Fail("vendored-duplicate", "two vendored parameter sets share a modulus")
		}
	}
}

func c19PreCancel(r *core.Result) {
	ctx, cancel := context.WithCancel(context.Background())
	rd := &countingReader{trigger: 200, onTrig: cancel}
	type out struct {
		pp  *keygen.LocalPreParams
		err error
	}
	ch := make(chan out, 1)
	go func() {
		pp, err := keygen.GeneratePreParamsWithContextAndRandom(ctx, rd, 6)
		ch <- out{pp, err}
	}()
	r.Count("cancellations_injected", 1)
	select {
	case o := <-ch:
		if o.err == nil {
			r.Fail("precancel-no-error", "GeneratePreParams returned a result although its context was cancelled at the 200th entropy read")
		}
	case <-time.After(5 * time.Minute):
		r.Recycle = true
		d := allStacks()
		dl := false
		for _, g := range goroutinesWith(d, "runGenPrimeRoutine") {
			if strings.Contains(strings.SplitN(g, "\n", 2)[0], "chan send") {
				dl = true
			}
		}
		if dl {
			r.Fail("deadlock:GetRandomSafePrimesConcurrent", "GeneratePreParams with a cancelled context never returns (generator parked in chan send)")
		} else {
			r.Inconcl("GeneratePreParams did not return within 5 minutes of cancellation")
		}
		r.Witness = d
		cancel()
		return
	}
	cancel()
	// the second worker finishes asynchronously: poll (bounded) until no library goroutine is left
	var left []string
	for i := 0; i < 300; i++ {
		d := allStacks()
		left = append(goroutinesWith(d, "common.runGenPrimeRoutine"), goroutinesWith(d, "GeneratePreParamsWithContextAndRandom")...)
		left = append(left, goroutinesWith(d, "GetRandomSafePrimesConcurrent")...)
		if len(left) == 0 {
			break
		}
		time.Sleep(100 * time.Millisecond)
	}
	if len(left) > 0 {
		r.Recycle = true
		r.Fail("goroutine-left:preparams", "%d library goroutine(s) still alive 30 s after the cancelled GeneratePreParams returned", len(left))
		r.Witness = strings.Join(left, "\n\n")
	}
	r.NonTrivial = true
}

func c19NTilde(r *core.Result, env *core.Env) {
	pp, err := PreParams(env.Repo)
	if err != nil {
		r.Inconcl("fixtures: %v", err)
		return
	}
	for i := range pp {
		P := new(big.Int).Add(new(big.Int).Lsh(pp[i].P, 1), big1)
		Q := new(big.Int).Add(new(big.Int).Lsh(pp[i].Q, 1), big1)
		nt, h1, h2, err := crypto.GenerateNTildei(rand.Reader, [2]*big.Int{P, Q})
		if err != nil {
			r.Fail("generate-ntilde", "GenerateNTildei refused two safe primes: %v", err)
			continue
		}
		if nt.Cmp(new(big.Int).Mul(P, Q)) != 0 {
			r.Fail("generate-ntilde", "NTilde != P*Q")
		}
		for _, h := range []*big.Int{h1, h2} {
			if big.Jacobi(h, P) != 1 || big.Jacobi(h, Q) != 1 || new(big.Int).GCD(nil, nil, h, nt).Cmp(big1) != 0 {
				r.Fail("generate-ntilde-h", "h is not a unit square")
			}
		}
		r.Count("preparams_checked", 1)
	}
	if _, _, _, err := crypto.GenerateNTildei(rand.Reader, [2]*big.Int{big.NewInt(15), big.NewInt(23)}); err == nil {
		r.Fail("generate-ntilde-composite", "GenerateNTildei accepted a composite")
	}
	if _, _, _, err := crypto.GenerateNTildei(rand.Reader, [2]*big.Int{nil, big.NewInt(23)}); err == nil {
		r.Fail("generate-ntilde-nil", "GenerateNTildei accepted nil")
	}
	r.NonTrivial = true
}

// processCPU is the user+system CPU time this process has consumed so far.
func processCPU() time.Duration {
	var ru syscall.Rusage
	if err := syscall.Getrusage(syscall.RUSAGE_SELF, &ru); err != nil {
		return 0
	}
	return time.Duration(ru.Utime.Nano() + ru.Stime.Nano())
}
