package checks

import (
	"bytes"
	"crypto/ed25519"
	"crypto/sha512"
	"encoding/json"
	"fmt"
	"math/big"
	"os"
	"path/filepath"
	"sync"
	"syscall"

	"github.com/btcsuite/btcd/btcec/v2"
	btcecdsa "github.com/btcsuite/btcd/btcec/v2/ecdsa"

	"crypto/rand"
	"github.com/bnb-chain/tss-lib/v2/common"
	"github.com/bnb-chain/tss-lib/v2/crypto"
	"github.com/bnb-chain/tss-lib/v2/crypto/paillier"
	"github.com/bnb-chain/tss-lib/v2/crypto/vss"
	ecdsakeygen "github.com/bnb-chain/tss-lib/v2/ecdsa/keygen"
	eddsakeygen "github.com/bnb-chain/tss-lib/v2/eddsa/keygen"
	"github.com/bnb-chain/tss-lib/v2/tss"

	"verif/core"
	"verif/ref"
	"verif/sim"
)

// ---------------------------------------------------------------- neutral view of saved key data

type keyView struct {
	Xi, ShareID *big.Int
	Ks          []*big.Int
	BigXj       []*crypto.ECPoint
	Pub         *crypto.ECPoint
	// ECDSA only
	SK                      *paillier.PrivateKey
	PKs                     []*paillier.PublicKey
	NTildej, H1j, H2j       []*big.Int
	NTildei, H1i, H2i       *big.Int
	Alpha, Beta, PreP, PreQ *big.Int
}

func viewECDSA(d *ecdsakeygen.LocalPartySaveData) *keyView {
	return &keyView{Xi: d.Xi, ShareID: d.ShareID, Ks: d.Ks, BigXj: d.BigXj, Pub: d.ECDSAPub, SK: d.PaillierSK, PKs: d.PaillierPKs,
		NTildej: d.NTildej, H1j: d.H1j, H2j: d.H2j, NTildei: d.NTildei, H1i: d.H1i, H2i: d.H2i, Alpha: d.Alpha, Beta: d.Beta, PreP: d.P, PreQ: d.Q}
}

func viewEDDSA(d *eddsakeygen.LocalPartySaveData) *keyView {
	return &keyView{Xi: d.Xi, ShareID: d.ShareID, Ks: d.Ks, BigXj: d.BigXj, Pub: d.EDDSAPub}
}

func viewsOf(w *sim.World, group string) (views []*keyView, missing []string) {
	for _, n := range w.Nodes {
		if group != "" && n.Group != group {
			continue
		}
		if len(n.Ended) == 0 {
			missing = append(missing, n.Name)
			continue
		}
		switch d := n.Ended[0].(type) {
		case *ecdsakeygen.LocalPartySaveData:
			views = append(views, viewECDSA(d))
		case *eddsakeygen.LocalPartySaveData:
			views = append(views, viewEDDSA(d))
		}
	}
	return
}

func eqInt(a, b *big.Int) bool {
	if a == nil || b == nil {
		return a == b
	}
	return a.Cmp(b) == 0
}

func eqPt(a, b *crypto.ECPoint) bool {
	if a == nil || b == nil {
		return a == b
	}
	return a.Equals(b)
}

func subsetsOfSize(n, k int) [][]int {
	var out [][]int
	var rec func(start int, cur []int)
	rec = func(start int, cur []int) {
		if len(cur) == k {
			out = append(out, append([]int{}, cur...))
			return
		}
		for i := start; i < n; i++ {
			rec(i+1, append(cur, i))
		}
	}
	rec(0, nil)
	return out
}

// keySharingOracle is the C03 oracle: the views (one per party, in party-index order) must be a consistent
// (t,n) sharing of one key. wantPub (optional) pins the public key; firstCommitments (optional) are the V_i0
// points seen on the wire, whose sum must be the public key.
func keySharingOracle(r *core.Result, curve string, t int, views []*keyView, partyKeys []*big.Int, wantPub *ref.Pt, firstCommitments []ref.Pt, ecdsa bool) {
	n := len(views)
	q := orderOf(curve)
	if n == 0 {
		r.Fail("key:none", "no key data to check")
		return
	}
	v0 := views[0]
	if v0.Pub == nil {
		r.Fail("key:pub-nil", "public key missing")
		return
	}
	pub := refPt(v0.Pub)
	if isEd(curve) && !ref.EdOnCurve(pub.X, pub.Y) || !isEd(curve) && !ref.SecpOnCurve(pub.X, pub.Y) {
		r.Fail("key:pub-off-curve", "public key is not on the curve")
	}
	if wantPub != nil && !pub.Eq(*wantPub) {
		r.Fail("key:pub-changed", "group public key differs from the expected one")
	}
	for i, v := range views {
		if !eqPt(v.Pub, v0.Pub) {
			r.Fail("key:pub-differs", "party %d holds a different public key", i)
		}
		if len(v.Ks) != n || len(v.BigXj) != n {
			r.Fail("key:lengths", "party %d: %d ids / %d share points for %d parties", i, len(v.Ks), len(v.BigXj), n)
			return
		}
		for j := 0; j < n; j++ {
			if !eqInt(v.Ks[j], v0.Ks[j]) {
				r.Fail("key:ks-differ", "party %d: Ks[%d] differs", i, j)
			}
			if !eqPt(v.BigXj[j], v0.BigXj[j]) {
				r.Fail("key:bigxj-differ", "party %d: BigXj[%d] differs", i, j)
			}
			if ecdsa {
				if v.PKs[j] == nil || v0.PKs[j] == nil || !eqInt(v.PKs[j].N, v0.PKs[j].N) {
					r.Fail("key:paillier-differ", "party %d: PaillierPKs[%d] differs", i, j)
				}
				if !eqInt(v.NTildej[j], v0.NTildej[j]) || !eqInt(v.H1j[j], v0.H1j[j]) || !eqInt(v.H2j[j], v0.H2j[j]) {
					r.Fail("key:pedersen-differ", "party %d: NTilde/h1/h2 of %d differs", i, j)
				}
			}
		}
		if partyKeys != nil && !eqInt(v.ShareID, partyKeys[i]) {
			r.Fail("key:shareid", "party %d: ShareID is not its party key", i)
		}
		if !eqInt(v.ShareID, v.Ks[i]) {
			r.Fail("key:shareid-ks", "party %d: ShareID != Ks[%d]", i, i)
		}
		if v.Xi == nil || v.Xi.Sign() < 0 {
			r.Fail("key:xi", "party %d: Xi missing", i)
			continue
		}
		if !samePt(v.BigXj[i], refBaseMul(curve, v.Xi)) {
			r.Fail("key:xi-bigxi", "party %d: Xi*G != BigXj[%d]", i, i)
		}
		if ecdsa {
			sk := v.SK
			if sk == nil || sk.P == nil || sk.Q == nil {
				r.Fail("key:sk-missing", "party %d: Paillier private key missing", i)
				continue
			}
			if new(big.Int).Mul(sk.P, sk.Q).Cmp(sk.N) != 0 {
				r.Fail("key:sk-n", "party %d: PaillierSK.N != P*Q", i)
			}
			if !eqInt(sk.N, v0.PKs[i].N) {
				r.Fail("key:sk-vs-recorded", "party %d: its Paillier private key does not match the modulus the others recorded for it", i)
			}
			p1, q1 := new(big.Int).Sub(sk.P, big1), new(big.Int).Sub(sk.Q, big1)
			phi := new(big.Int).Mul(p1, q1)
			if !eqInt(sk.PhiN, phi) || !eqInt(sk.LambdaN, new(big.Int).Div(phi, new(big.Int).GCD(nil, nil, p1, q1))) {
				r.Fail("key:sk-phi", "party %d: PhiN/LambdaN inconsistent", i)
			}
			if !eqInt(v.NTildei, v0.NTildej[i]) || !eqInt(v.H1i, v0.H1j[i]) || !eqInt(v.H2i, v0.H2j[i]) {
				r.Fail("key:own-pedersen", "party %d: own NTilde/h1/h2 differ from what the others recorded", i)
			}
		}
	}
	if r.Verdict == core.Violated {
		return
	}
	ids := make([]*big.Int, n)
	pts := make([]ref.Pt, n)
	xs := make([]*big.Int, n)
	for i := range views {
		ids[i] = new(big.Int).Mod(v0.Ks[i], q)
		pts[i] = refPt(v0.BigXj[i])
		xs[i] = new(big.Int).Mod(views[i].Xi, q)
	}
	for i := range ids {
		if ids[i].Sign() == 0 {
			r.Fail("key:id-zero", "share id %d is 0 modulo the group order", i)
			return
		}
		for j := 0; j < i; j++ {
			if ids[i].Cmp(ids[j]) == 0 {
				r.Fail("key:ids-congruent", "share ids %d and %d coincide modulo the group order: the two parties hold the same share and the sharing is not (t,n)", j, i)
				return
			}
		}
	}
	// single polynomial of degree <= t in the exponent, constant term = pub: every (t+1)-subset
	var x0 *big.Int
	for _, T := range subsetsOfSize(n, t+1) {
		sub := make([]*big.Int, len(T))
		for k, i := range T {
			sub[k] = ids[i]
		}
		at := func(x *big.Int) ref.Pt {
			var acc ref.Pt
			first := true
			for k, i := range T {
				l := ref.LagrangeAt(sub, k, x, q)
				term := refMul(curve, l, pts[i])
				if first {
					acc, first = term, false
				} else {
					acc = refAdd(curve, acc, term)
				}
			}
			return acc
		}
		if !at(big0).Eq(pub) {
			r.Fail("key:interpolate-pub", "share points of subset %v do not interpolate to the public key in the exponent", T)
		}
		for k := 0; k < n; k++ {
			in := false
			for _, i := range T {
				if i == k {
					in = true
				}
			}
			if !in && !at(ids[k]).Eq(pts[k]) {
				r.Fail("key:degree", "share point %d is not on the degree-%d polynomial through subset %v", k, t, T)
			}
		}
		sx := make([]*big.Int, len(T))
		for k, i := range T {
			sx[k] = xs[i]
		}
		x := ref.InterpolateAt(sub, sx, big0, q)
		if x0 == nil {
			x0 = x
		} else if x0.Cmp(x) != 0 {
			r.Fail("key:secret-differs", "subset %v interpolates to a different private key", T)
		}
		if !refBaseMul(curve, x).Eq(pub) && !(x.Sign() == 0) {
			r.Fail("key:secret-pub", "secret interpolated from subset %v does not match the public key", T)
		}
		r.Count("subsets_interpolated", 1)
	}
	if firstCommitments != nil {
		acc := firstCommitments[0]
		for _, p := range firstCommitments[1:] {
			acc = refAdd(curve, acc, p)
		}
		if !acc.Eq(pub) {
			r.Fail("key:contribution-dropped", "public key is not the sum of all parties' first Feldman commitments seen on the wire")
		}
		r.Count("wire_commitments_summed", int64(len(firstCommitments)))
	}
}

// ---------------------------------------------------------------- signature oracles

func padTo(b []byte, n int) []byte {
	if len(b) >= n {
		return b
	}
	return append(make([]byte, n-len(b)), b...)
}

// ecdsaSigOracle is the C01 oracle over the SignatureData of all signers that finished.
// retained results: an application keeps the SignatureData it was handed (a queue, a batch, a cache) while the process goes
// on signing. Every result that reaches one of the signature oracles is kept by reference together with a copy taken at
// that moment; each later oracle call in the same worker process first checks that none of the kept results has changed.
type retainedSig struct {
	live *common.SignatureData
	copy *common.SignatureData
	from string
}

var (
	retainedMu   sync.Mutex
	retainedSigs []retainedSig
)

func retainAndRecheck(r *core.Result, kind string, outs []*common.SignatureData) {
	retainedMu.Lock()
	defer retainedMu.Unlock()
	for i := range retainedSigs {
		k := &retainedSigs[i]
		l, c := k.live, k.copy
		if !bytes.Equal(l.R, c.R) || !bytes.Equal(l.S, c.S) || !bytes.Equal(l.Signature, c.Signature) || !bytes.Equal(l.SignatureRecovery, c.SignatureRecovery) || !bytes.Equal(l.M, c.M) {
			r.Fail(kind+":delivered-result-changed", "a SignatureData delivered earlier in this process (%s) has changed since: R %x -> %x, S %x -> %x, Signature %x -> %x", k.from, c.R, l.R, c.S, l.S, c.Signature, l.Signature)
		}
	}
	r.Count("retained_results_rechecked", int64(len(retainedSigs)))
	for _, o := range outs {
		if o == nil {
			continue
		}
		cp := &common.SignatureData{R: append([]byte{}, o.R...), S: append([]byte{}, o.S...), Signature: append([]byte{}, o.Signature...),
			SignatureRecovery: append([]byte{}, o.SignatureRecovery...), M: append([]byte{}, o.M...)}
		retainedSigs = append(retainedSigs, retainedSig{live: o, copy: cp, from: r.ID})
	}
	if len(retainedSigs) > 96 {
		retainedSigs = retainedSigs[len(retainedSigs)-96:]
	}
}

func ecdsaSigOracle(r *core.Result, pub ref.Pt, digest *big.Int, fullLen int, outs []*common.SignatureData) {
	if len(outs) == 0 {
		return
	}
	defer retainAndRecheck(r, "sig", outs)
	s0 := outs[0]
	for i, s := range outs {
		if !bytes.Equal(s.R, s0.R) || !bytes.Equal(s.S, s0.S) || !bytes.Equal(s.Signature, s0.Signature) ||
			!bytes.Equal(s.SignatureRecovery, s0.SignatureRecovery) || !bytes.Equal(s.M, s0.M) {
			r.Fail("sig:signers-differ", "signer %d emitted a different SignatureData", i)
		}
	}
	q := ref.SecpN
	if len(s0.R) != 32 || len(s0.S) != 32 {
		r.Fail("sig:width", "R/S are %d/%d bytes, want 32/32", len(s0.R), len(s0.S))
	}
	if !bytes.Equal(s0.Signature, append(append([]byte{}, s0.R...), s0.S...)) {
		r.Fail("sig:layout", "Signature != R||S")
	}
	rr, ss := new(big.Int).SetBytes(s0.R), new(big.Int).SetBytes(s0.S)
	if ss.Sign() <= 0 || ss.Cmp(new(big.Int).Rsh(q, 1)) > 0 {
		r.Fail("sig:high-s", "S is not in (0, q/2]")
	}
	if !ref.ECDSAVerify(pub, digest, rr, ss) {
		r.Fail("sig:invalid", "signature does not verify under the group public key (reference verifier)")
	}
	// second opinion: btcec's own verifier on the 32-byte digest
	func() {
		defer func() { recover() }()
		var rs, sc btcec.ModNScalar
		if rs.SetByteSlice(padTo(s0.R, 32)) || sc.SetByteSlice(padTo(s0.S, 32)) {
			r.Fail("sig:overflow", "R or S not below the group order")
			return
		}
		pk, err := btcec.ParsePubKey(ref.SerP(pub))
		if err != nil {
			r.Fail("sig:pubkey", "btcec cannot parse the group key: %v", err)
			return
		}
		if !btcecdsa.NewSignature(&rs, &sc).Verify(padTo(digest.Bytes(), 32), pk) {
			r.Fail("sig:invalid-btcec", "btcec/ecdsa rejects the signature")
		}
	}()
	if len(s0.SignatureRecovery) != 1 {
		r.Fail("sig:recid-len", "SignatureRecovery has %d bytes", len(s0.SignatureRecovery))
	} else {
		got, ok := ref.ECDSARecover(digest, rr, ss, s0.SignatureRecovery[0])
		if !ok || !got.Eq(pub) {
			r.Fail("sig:recovery", "recovery byte %d does not recover the group public key", s0.SignatureRecovery[0])
		}
		r.Count(fmt.Sprintf("recid_%d", s0.SignatureRecovery[0]), 1)
	}
	if fullLen == 0 {
		if !bytes.Equal(s0.M, digest.Bytes()) {
			r.Fail("sig:echo", "echoed message %x != digest bytes %x", s0.M, digest.Bytes())
		}
	} else {
		if len(s0.M) != fullLen || new(big.Int).SetBytes(s0.M).Cmp(digest) != 0 {
			r.Fail("sig:echo-padded", "echoed message has %d bytes (want %d) or a different value", len(s0.M), fullLen)
		}
	}
	r.Count("signatures_verified", 1)
}

// eddsaSigOracle is the C02 oracle.
func eddsaSigOracle(r *core.Result, pub ref.Pt, msg *big.Int, fullLen int, outs []*common.SignatureData) {
	if len(outs) == 0 {
		return
	}
	defer retainAndRecheck(r, "edsig", outs)
	s0 := outs[0]
	for i, s := range outs {
		if !bytes.Equal(s.Signature, s0.Signature) || !bytes.Equal(s.M, s0.M) || !bytes.Equal(s.R, s0.R) || !bytes.Equal(s.S, s0.S) {
			r.Fail("edsig:signers-differ", "signer %d emitted a different SignatureData", i)
		}
	}
	var wantM []byte
	if fullLen == 0 {
		wantM = msg.Bytes()
	} else {
		wantM = make([]byte, fullLen)
		msg.FillBytes(wantM)
	}
	if !bytes.Equal(s0.M, wantM) {
		r.Fail("edsig:echo", "echoed message %x != expected %x", s0.M, wantM)
	}
	if len(s0.Signature) != 64 {
		r.Fail("edsig:length", "signature has %d bytes", len(s0.Signature))
		return
	}
	A := ref.EdEncode(pub)
	if !ed25519.Verify(ed25519.PublicKey(A[:]), s0.M, s0.Signature) {
		r.Fail("edsig:invalid", "crypto/ed25519 rejects the signature over the echoed message")
	}
	// own group equation: [S]B = R + [H(R||A||M)]A, S < L
	var rb [32]byte
	copy(rb[:], s0.Signature[:32])
	R, ok := ref.EdDecode(rb)
	if !ok {
		r.Fail("edsig:R", "R does not decode to a curve point")
		return
	}
	sle := make([]byte, 32)
	for i := 0; i < 32; i++ {
		sle[i] = s0.Signature[63-i]
	}
	S := new(big.Int).SetBytes(sle)
	if S.Cmp(ref.EdL) >= 0 {
		r.Fail("edsig:S-range", "S >= L")
	}
	h := sha512.New()
	h.Write(s0.Signature[:32])
	h.Write(A[:])
	h.Write(s0.M)
	hd := h.Sum(nil)
	for i, j := 0, len(hd)-1; i < j; i, j = i+1, j-1 {
		hd[i], hd[j] = hd[j], hd[i]
	}
	k := new(big.Int).Mod(new(big.Int).SetBytes(hd), ref.EdL)
	if !ref.EdBaseMul(S).Eq(ref.EdAdd(R, ref.EdMul(k, pub))) {
		r.Fail("edsig:equation", "[S]B != R + [k]A (reference arithmetic)")
	}
	// R and S fields are the integers of the two halves
	rbe := make([]byte, 32)
	for i := 0; i < 32; i++ {
		rbe[i] = s0.Signature[31-i]
	}
	if new(big.Int).SetBytes(s0.R).Cmp(new(big.Int).SetBytes(rbe)) != 0 || new(big.Int).SetBytes(s0.S).Cmp(S) != 0 {
		r.Fail("edsig:fields", "R/S fields do not match the signature halves")
	}
	r.Count("signatures_verified", 1)
}

func sigOuts(w *sim.World) (outs []*common.SignatureData, missing []string) {
	for _, n := range w.Nodes {
		if len(n.Ended) == 0 {
			missing = append(missing, n.Name)
			continue
		}
		if s, ok := n.Ended[0].(*common.SignatureData); ok {
			outs = append(outs, s)
		}
	}
	return
}

// ---------------------------------------------------------------- key store shared by the workers of one run

func withLock(path string, f func() error) error {
	lf, err := os.OpenFile(path+".lock", os.O_CREATE|os.O_RDWR, 0o644)
	if err != nil {
		return err
	}
	defer lf.Close()
	if err := syscall.Flock(int(lf.Fd()), syscall.LOCK_EX); err != nil {
		return err
	}
	defer syscall.Flock(int(lf.Fd()), syscall.LOCK_UN)
	return f()
}

// keyIDs returns the party keys of a named pattern.
func keyIDs(pattern string, n int, curve string, seed int64) []*big.Int {
	q := orderOf(curve)
	out := make([]*big.Int, n)
	rg := rng(seed, "keyids/"+pattern)
	for i := range out {
		switch pattern {
		case "small":
			out[i] = big.NewInt(int64(i + 1))
		case "large":
			out[i] = new(big.Int).Add(new(big.Int).Lsh(big1, 250), big.NewInt(int64(3*i+1)))
		case "nearq":
			out[i] = new(big.Int).Sub(q, big.NewInt(int64(n-i)))
		case "geq":
			out[i] = new(big.Int).Add(q, big.NewInt(int64(2*i+1)))
		case "huge": // wider than the field prime: 300-bit keys
			out[i] = new(big.Int).Add(new(big.Int).Lsh(big1, 300), big.NewInt(int64(17*i+3)))
		case "geP": // just above the field prime p (p > q on both curves)
			if isEd(curve) {
				out[i] = new(big.Int).Add(ref.EdP, big.NewInt(int64(2*i+1)))
			} else {
				out[i] = new(big.Int).Add(ref.SecpP, big.NewInt(int64(2*i+1)))
			}
		case "congruent": // the last id is congruent to the first one modulo the group order: must be refused (or handled)
			out[i] = big.NewInt(int64(5 + 2*i))
			if i == n-1 && n > 1 {
				out[i] = new(big.Int).Add(q, big.NewInt(5))
			}
		case "new": // resharing: ids disjoint from every other pattern
			out[i] = new(big.Int).Add(new(big.Int).Lsh(big1, 200), big.NewInt(int64(1000+7*i)))
		case "new2":
			out[i] = new(big.Int).Add(new(big.Int).Lsh(big1, 190), big.NewInt(int64(5000+11*i)))
		case "new3":
			out[i] = new(big.Int).Add(new(big.Int).Lsh(big1, 180), big.NewInt(int64(9000+13*i)))
		default:
			for {
				out[i] = randBits(rg, 256)
				m := new(big.Int).Mod(out[i], q)
				dup := m.Sign() == 0
				for j := 0; j < i; j++ {
					if new(big.Int).Mod(out[j], q).Cmp(m) == 0 {
						dup = true
					}
				}
				if !dup {
					break
				}
			}
		}
	}
	return out
}

// ECDSAKey returns a freshly generated (n,t) ECDSA key (one keygen per run and configuration, shared through the run directory).
// The key is produced by the library's own keygen under a FIFO schedule and is accepted only if it passes the C03 oracle.
func ECDSAKey(env *core.Env, n, t int, pattern string) ([]ecdsakeygen.LocalPartySaveData, error) {
	if pattern == "vendored" {
		fx, err := Fixtures(env.Repo)
		return fx, err
	}
	path := filepath.Join(env.RunDir, fmt.Sprintf("ecdsa-key-n%d-t%d-%s.json", n, t, pattern))
	var out []ecdsakeygen.LocalPartySaveData
	err := withLock(path, func() error {
		if b, err := os.ReadFile(path); err == nil {
			if err := json.Unmarshal(b, &out); err != nil {
				return err
			}
			for i := range out {
				for _, p := range out[i].BigXj {
					p.SetCurve(tss.S256())
				}
				out[i].ECDSAPub.SetCurve(tss.S256())
			}
			return nil
		}
		pre, err := PreParams(env.Repo)
		if err != nil {
			return err
		}
		w := sim.ECDSAKeygen(env.Seed, keyIDs(pattern, n, "secp256k1", env.Seed), t, pre[:n])
		w.Run(sim.FIFO, nil)
		views, missing := viewsOf(w, "")
		if len(missing) > 0 {
			return fmt.Errorf("keygen did not finish for %v: %v", missing, w.Trace(60))
		}
		var rr core.Result
		keySharingOracle(&rr, "secp256k1", t, views, nil, nil, nil, true)
		if rr.Verdict == core.Violated {
			return fmt.Errorf("generated key fails the key-sharing oracle: %s", rr.Msg)
		}
		for _, nd := range w.Nodes {
			out = append(out, *nd.Ended[0].(*ecdsakeygen.LocalPartySaveData))
		}
		b, err := json.Marshal(out)
		if err != nil {
			return err
		}
		return os.WriteFile(path, b, 0o644)
	})
	return out, err
}

// EDDSAKey generates a fresh (n,t) EdDSA key (cheap: never cached).
// dealtEDDSAKey builds key data for a large committee directly (a trusted dealer in the harness: Feldman sharing with the
// library's vss package, public shares with the reference arithmetic) - a distributed keygen for hundreds of parties is
// too slow for a check that only needs the key as an input.
func dealtEDDSAKey(env *core.Env, n, t int) ([]eddsakeygen.LocalPartySaveData, error) {
	ec := tss.Edwards()
	rg := rng(env.Seed, fmt.Sprint("dealt", n, t))
	x := randBig(rg, ref.EdL)
	if x.Sign() == 0 {
		x.SetInt64(5)
	}
	ids := make([]*big.Int, n)
	for i := range ids {
		ids[i] = big.NewInt(int64(i + 1))
	}
	_, shares, err := vss.Create(ec, t, x, ids, rand.Reader)
	if err != nil {
		return nil, err
	}
	pubR := ref.EdBaseMul(x)
	pub, err := crypto.NewECPoint(ec, pubR.X, pubR.Y)
	if err != nil {
		return nil, err
	}
	bigX := make([]*crypto.ECPoint, n)
	for i, sh := range shares {
		bigX[i] = crypto.ScalarBaseMult(ec, sh.Share)
	}
	out := make([]eddsakeygen.LocalPartySaveData, n)
	for i := range out {
		d := eddsakeygen.NewLocalPartySaveData(n)
		d.Xi, d.ShareID = new(big.Int).Set(shares[i].Share), ids[i]
		copy(d.Ks, ids)
		copy(d.BigXj, bigX)
		d.EDDSAPub = pub
		out[i] = d
	}
	return out, nil
}

func EDDSAKey(env *core.Env, n, t int, pattern string, label string) ([]eddsakeygen.LocalPartySaveData, error) {
	if pattern == "dealt" {
		return dealtEDDSAKey(env, n, t)
	}
	w := sim.EDDSAKeygen(env.Seed, keyIDs(pattern, n, "ed25519", env.Seed), t)
	w.Run(sim.FIFO, nil)
	views, missing := viewsOf(w, "")
	if len(missing) > 0 {
		return nil, fmt.Errorf("eddsa keygen did not finish for %v", missing)
	}
	var rr core.Result
	keySharingOracle(&rr, "ed25519", t, views, nil, nil, nil, false)
	if rr.Verdict == core.Violated {
		return nil, fmt.Errorf("generated key fails the key-sharing oracle: %s", rr.Msg)
	}
	var out []eddsakeygen.LocalPartySaveData
	for _, nd := range w.Nodes {
		out = append(out, *nd.Ended[0].(*eddsakeygen.LocalPartySaveData))
	}
	return out, nil
}

func schedByName(name string, w *sim.World) sim.Scheduler {
	switch name {
	case "lifo":
		return sim.LIFO
	case "random":
		return sim.Random
	case "starts-random":
		return sim.StartsThen(sim.Random)
	case "future":
		return sim.StartsThen(sim.FutureFirst)
	case "starve0":
		return sim.Starve(0, sim.FIFO)
	case "starve-last":
		return sim.Starve(len(w.Nodes)-1, sim.FIFO)
	case "dup":
		w.DupAll = true
		return sim.StartsThen(sim.Random)
	}
	return sim.FIFO
}
