package checks

import (
	"crypto/elliptic"
	"crypto/rand"
	"fmt"
	"math/big"

	"github.com/bnb-chain/tss-lib/v2/common"
	"github.com/bnb-chain/tss-lib/v2/crypto"
	"github.com/bnb-chain/tss-lib/v2/crypto/dlnproof"
	"github.com/bnb-chain/tss-lib/v2/crypto/facproof"
	"github.com/bnb-chain/tss-lib/v2/crypto/modproof"
	"github.com/bnb-chain/tss-lib/v2/crypto/mta"
	"github.com/bnb-chain/tss-lib/v2/crypto/paillier"
	"github.com/bnb-chain/tss-lib/v2/crypto/schnorr"
	"github.com/bnb-chain/tss-lib/v2/ecdsa/keygen"
)

// proofInst is one accepted (proof, session, statement) triple of one proof system in a uniform shape:
// all proof components and all statement components are non-negative integers, so that C10/C11/C12 can
// perturb them generically. verify rebuilds the library's proof object from the components and calls the
// library verifier; it reports (accepted, panicMessage).
type proofInst struct {
	sys       string
	comps     []*big.Int
	compNames []string
	stmt      []*big.Int
	stmtNames []string
	sess      []byte
	hasSess   bool
	verify    func(comps []*big.Int, sess []byte, stmt []*big.Int) bool
	// roundtrip encodes the library proof object to its wire parts, parses it back and verifies.
	roundtrip func() (ok bool, err error)
	// shifts are commitment/response shifts along the verifier's relation: each returns altered components.
	shifts map[string]func(d *big.Int) []*big.Int
	// altStmts are complete alternative statements (other key, other point, swapped generators...) that must be rejected.
	altStmts map[string][]*big.Int
}

func (pi *proofInst) safeVerify(comps []*big.Int, sess []byte, stmt []*big.Int) (ok bool, panicMsg string) {
	p, msg, _ := guard(func() { ok = pi.verify(comps, sess, stmt) })
	if p {
		return false, msg
	}
	return ok, ""
}

func cloneInts(a []*big.Int) []*big.Int {
	o := make([]*big.Int, len(a))
	for i := range a {
		o[i] = new(big.Int).Set(a[i])
	}
	return o
}

func pointOrNil(ec elliptic.Curve, x, y *big.Int) *crypto.ECPoint {
	p, err := crypto.NewECPoint(ec, x, y)
	if err != nil {
		return nil
	}
	return p
}

func numbered(prefix string, n int) []string {
	o := make([]string, n)
	for i := range o {
		o[i] = fmt.Sprintf("%s[%d]", prefix, i)
	}
	return o
}

// ---------------------------------------------------------------- Schnorr

func mkSchnorr(curve string, x *big.Int, sess []byte) (*proofInst, error) {
	ec := ecOf(curve)
	X := crypto.ScalarBaseMult(ec, x)
	pf, err := schnorr.NewZKProof(sess, x, X, rand.Reader)
	if err != nil {
		return nil, err
	}
	q := ec.Params().N
	other := crypto.ScalarBaseMult(ec, new(big.Int).Add(new(big.Int).Mod(x, new(big.Int).Sub(q, big2)), big1))
	in := &proofInst{sys: "schnorr/" + curve, hasSess: true, sess: sess,
		comps: []*big.Int{pf.Alpha.X(), pf.Alpha.Y(), pf.T}, compNames: []string{"Alpha.X", "Alpha.Y", "T"},
		stmt: []*big.Int{X.X(), X.Y()}, stmtNames: []string{"X.x", "X.y"},
	}
	in.verify = func(c []*big.Int, s []byte, st []*big.Int) bool {
		a := pointOrNil(ec, c[0], c[1])
		xx := pointOrNil(ec, st[0], st[1])
		if a == nil || xx == nil {
			return false
		}
		return (&schnorr.ZKProof{Alpha: a, T: c[2]}).Verify(s, xx)
	}
	in.roundtrip = func() (bool, error) {
		// the wire form is (alpha.x, alpha.y, t) as minimal big-endian bytes
		// the receiver has its own handle of the curve (tss.Edwards() builds a new value per call) and its own copy of the statement
		ec2 := ecOf(curve)
		a, err := crypto.NewECPoint(ec2, new(big.Int).SetBytes(pf.Alpha.X().Bytes()), new(big.Int).SetBytes(pf.Alpha.Y().Bytes()))
		if err != nil {
			return false, err
		}
		X2, err := crypto.NewECPoint(ecOf(curve), new(big.Int).SetBytes(X.X().Bytes()), new(big.Int).SetBytes(X.Y().Bytes()))
		if err != nil {
			return false, err
		}
		return (&schnorr.ZKProof{Alpha: a, T: new(big.Int).SetBytes(pf.T.Bytes())}).Verify(sess, X2), nil
	}
	in.shifts = map[string]func(d *big.Int) []*big.Int{
		"alpha+dG,t+d": func(d *big.Int) []*big.Int {
			dG := crypto.ScalarBaseMult(ec, d)
			a2, err := pf.Alpha.Add(dG)
			if err != nil {
				return nil
			}
			return []*big.Int{a2.X(), a2.Y(), new(big.Int).Mod(new(big.Int).Add(pf.T, d), q)}
		},
	}
	in.altStmts = map[string][]*big.Int{"other point": {other.X(), other.Y()}}
	if isEd(curve) {
		// X + torsion point: same prime-order component, different point
	}
	return in, nil
}

func mkSchnorrV(curve string, s, l *big.Int, sess []byte) (*proofInst, error) {
	ec := ecOf(curve)
	q := ec.Params().N
	rk := common.GetRandomPositiveInt(rand.Reader, q)
	if rk.Sign() == 0 {
		rk = big.NewInt(3)
	}
	R := crypto.ScalarBaseMult(ec, rk)
	// V = s*R + l*G computed with the reference arithmetic: s or l may be 0 (a legitimate witness), which the library's
	// point type cannot multiply by
	rv := refAdd(curve, refMul(curve, s, refPt(R)), refBaseMul(curve, l))
	if refIsId(curve, rv) && !isEd(curve) {
		return nil, fmt.Errorf("V is the identity")
	}
	V, err := crypto.NewECPoint(ec, rv.X, rv.Y)
	if err != nil {
		return nil, err
	}
	pf, err := schnorr.NewZKVProof(sess, V, R, s, l, rand.Reader)
	if err != nil {
		return nil, err
	}
	in := &proofInst{sys: "schnorrV/" + curve, hasSess: true, sess: sess,
		comps: []*big.Int{pf.Alpha.X(), pf.Alpha.Y(), pf.T, pf.U}, compNames: []string{"Alpha.X", "Alpha.Y", "T", "U"},
		stmt: []*big.Int{V.X(), V.Y(), R.X(), R.Y()}, stmtNames: []string{"V.x", "V.y", "R.x", "R.y"},
	}
	in.verify = func(c []*big.Int, ss []byte, st []*big.Int) bool {
		a := pointOrNil(ec, c[0], c[1])
		v := pointOrNil(ec, st[0], st[1])
		r := pointOrNil(ec, st[2], st[3])
		if a == nil || v == nil || r == nil {
			return false
		}
		return (&schnorr.ZKVProof{Alpha: a, T: c[2], U: c[3]}).Verify(ss, v, r)
	}
	in.roundtrip = func() (bool, error) {
		a, err := crypto.NewECPoint(ecOf(curve), new(big.Int).SetBytes(pf.Alpha.X().Bytes()), new(big.Int).SetBytes(pf.Alpha.Y().Bytes()))
		if err != nil {
			return false, err
		}
		V2, err := crypto.NewECPoint(ecOf(curve), new(big.Int).SetBytes(V.X().Bytes()), new(big.Int).SetBytes(V.Y().Bytes()))
		if err != nil {
			return false, err
		}
		R2, err := crypto.NewECPoint(ecOf(curve), new(big.Int).SetBytes(R.X().Bytes()), new(big.Int).SetBytes(R.Y().Bytes()))
		if err != nil {
			return false, err
		}
		return (&schnorr.ZKVProof{Alpha: a, T: new(big.Int).SetBytes(pf.T.Bytes()), U: new(big.Int).SetBytes(pf.U.Bytes())}).Verify(sess, V2, R2), nil
	}
	in.shifts = map[string]func(d *big.Int) []*big.Int{
		"alpha+dR,t+d": func(d *big.Int) []*big.Int {
			a2, err := pf.Alpha.Add(R.ScalarMult(d))
			if err != nil {
				return nil
			}
			return []*big.Int{a2.X(), a2.Y(), new(big.Int).Mod(new(big.Int).Add(pf.T, d), q), pf.U}
		},
		"alpha+dG,u+d": func(d *big.Int) []*big.Int {
			a2, err := pf.Alpha.Add(crypto.ScalarBaseMult(ec, d))
			if err != nil {
				return nil
			}
			return []*big.Int{a2.X(), a2.Y(), pf.T, new(big.Int).Mod(new(big.Int).Add(pf.U, d), q)}
		},
	}
	o := crypto.ScalarBaseMult(ec, big.NewInt(77))
	in.altStmts = map[string][]*big.Int{
		"other V": {o.X(), o.Y(), R.X(), R.Y()},
		"other R": {V.X(), V.Y(), o.X(), o.Y()},
		"V<->R":   {R.X(), R.Y(), V.X(), V.Y()},
	}
	return in, nil
}

// ---------------------------------------------------------------- DLN

func mkDLN(pp *keygen.LocalPreParams, other *keygen.LocalPreParams, second bool) *proofInst {
	h1, h2, x := pp.H1i, pp.H2i, pp.Alpha
	if second {
		h1, h2, x = pp.H2i, pp.H1i, pp.Beta
	}
	N := pp.NTildei
	pf := dlnproof.NewDLNProof(h1, h2, x, pp.P, pp.Q, N, rand.Reader)
	comps := append(append([]*big.Int{}, pf.Alpha[:]...), pf.T[:]...)
	in := &proofInst{sys: "dln", comps: comps, compNames: append(numbered("Alpha", 128), numbered("T", 128)...),
		stmt: []*big.Int{h1, h2, N}, stmtNames: []string{"h1", "h2", "N"}}
	build := func(c []*big.Int) *dlnproof.Proof {
		p := &dlnproof.Proof{}
		copy(p.Alpha[:], c[:128])
		copy(p.T[:], c[128:])
		return p
	}
	in.verify = func(c []*big.Int, _ []byte, st []*big.Int) bool { return build(c).Verify(st[0], st[1], st[2]) }
	in.roundtrip = func() (bool, error) {
		bz, err := pf.Serialize()
		clobberSpare(bz)
		if err != nil {
			return false, err
		}
		p2, err := dlnproof.UnmarshalDLNProof(bz)
		if err != nil {
			return false, err
		}
		return p2.Verify(h1, h2, N), nil
	}
	pq := new(big.Int).Mul(pp.P, pp.Q)
	in.shifts = map[string]func(d *big.Int) []*big.Int{
		"alpha_i*h1^d,t_i+d (all i)": func(d *big.Int) []*big.Int {
			c := cloneInts(comps)
			hd := new(big.Int).Exp(h1, d, N)
			for i := 0; i < 128; i++ {
				c[i].Mul(c[i], hd).Mod(c[i], N)
				c[128+i].Add(c[128+i], d).Mod(c[128+i], pq)
			}
			return c
		},
		"alpha_0*h1^d,t_0+d": func(d *big.Int) []*big.Int {
			c := cloneInts(comps)
			c[0].Mul(c[0], new(big.Int).Exp(h1, d, N)).Mod(c[0], N)
			c[128].Add(c[128], d)
			return c
		},
	}
	in.altStmts = map[string][]*big.Int{
		"h1<->h2":       {h2, h1, N},
		"other h2":      {h1, new(big.Int).Exp(h2, big2, N), N},
		"other h1":      {new(big.Int).Exp(h1, big2, N), h2, N},
		"other modulus": {h1, h2, other.NTildei},
		"other set":     {other.H1i, other.H2i, other.NTildei},
	}
	return in
}

// ---------------------------------------------------------------- Paillier key proof

func mkPaillierProof(sk *paillier.PrivateKey, otherN *big.Int, curve string, k *big.Int) *proofInst {
	ec := ecOf(curve)
	pub := crypto.ScalarBaseMult(ec, big.NewInt(1234567))
	pf := sk.Proof(k, pub)
	in := &proofInst{sys: "paillier-key", comps: append([]*big.Int{}, pf[:]...), compNames: numbered("y", paillier.ProofIters),
		stmt: []*big.Int{sk.N, k, pub.X(), pub.Y()}, stmtNames: []string{"N", "k", "pub.x", "pub.y"}}
	in.verify = func(c []*big.Int, _ []byte, st []*big.Int) bool {
		var p paillier.Proof
		copy(p[:], c)
		pt := pointOrNil(ec, st[2], st[3])
		if pt == nil {
			return false
		}
		ok, err := p.Verify(st[0], st[1], pt)
		return ok && err == nil
	}
	in.roundtrip = func() (bool, error) {
		var p paillier.Proof
		for i := range pf {
			p[i] = new(big.Int).SetBytes(pf[i].Bytes())
		}
		return p.Verify(sk.N, k, pub)
	}
	o := crypto.ScalarBaseMult(ec, big.NewInt(7654321))
	in.altStmts = map[string][]*big.Int{
		"other N":   {otherN, k, pub.X(), pub.Y()},
		"other k":   {sk.N, new(big.Int).Add(k, big1), pub.X(), pub.Y()},
		"other pub": {sk.N, k, o.X(), o.Y()},
	}
	return in
}

// ---------------------------------------------------------------- mod proof

func mkMod(sk *paillier.PrivateKey, otherN *big.Int, sess []byte) (*proofInst, error) {
	pf, err := modproof.NewProof(sess, sk.N, sk.P, sk.Q, rand.Reader)
	if err != nil {
		return nil, err
	}
	comps := []*big.Int{pf.W}
	comps = append(comps, pf.X[:]...)
	comps = append(comps, pf.A, pf.B)
	comps = append(comps, pf.Z[:]...)
	names := append(append(append([]string{"W"}, numbered("X", 80)...), "A", "B"), numbered("Z", 80)...)
	in := &proofInst{sys: "mod", hasSess: true, sess: sess, comps: comps, compNames: names,
		stmt: []*big.Int{sk.N}, stmtNames: []string{"N"}}
	build := func(c []*big.Int) *modproof.ProofMod {
		p := &modproof.ProofMod{W: c[0], A: c[81], B: c[82]}
		copy(p.X[:], c[1:81])
		copy(p.Z[:], c[83:])
		return p
	}
	in.verify = func(c []*big.Int, s []byte, st []*big.Int) bool { return build(c).Verify(s, st[0]) }
	in.roundtrip = func() (bool, error) {
		bz := pf.Bytes()
		clobberSpare(bz[:])
		p2, err := modproof.NewProofFromBytes(bz[:])
		if err != nil {
			return false, err
		}
		return p2.Verify(sess, sk.N), nil
	}
	in.altStmts = map[string][]*big.Int{"other N": {otherN}}
	return in, nil
}

// ---------------------------------------------------------------- fac proof

func mkFac(curve string, sk *paillier.PrivateKey, ver *keygen.LocalPreParams, other *keygen.LocalPreParams, sess []byte) (*proofInst, error) {
	ec := ecOf(curve)
	NCap, s, t := ver.NTildei, ver.H1i, ver.H2i
	pf, err := facproof.NewProof(sess, ec, sk.N, NCap, s, t, sk.P, sk.Q, rand.Reader)
	if err != nil {
		return nil, err
	}
	comps := []*big.Int{pf.P, pf.Q, pf.A, pf.B, pf.T, pf.Sigma, pf.Z1, pf.Z2, pf.W1, pf.W2, pf.V}
	in := &proofInst{sys: "fac", hasSess: true, sess: sess, comps: comps,
		compNames: []string{"P", "Q", "A", "B", "T", "Sigma", "Z1", "Z2", "W1", "W2", "V"},
		stmt:      []*big.Int{sk.N, NCap, s, t}, stmtNames: []string{"N0", "NCap", "s", "t"}}
	build := func(c []*big.Int) *facproof.ProofFac {
		return &facproof.ProofFac{P: c[0], Q: c[1], A: c[2], B: c[3], T: c[4], Sigma: c[5], Z1: c[6], Z2: c[7], W1: c[8], W2: c[9], V: c[10]}
	}
	in.verify = func(c []*big.Int, ss []byte, st []*big.Int) bool {
		return build(c).Verify(ss, ec, st[0], st[1], st[2], st[3])
	}
	in.roundtrip = func() (bool, error) {
		bz := pf.Bytes()
		clobberSpare(bz[:])
		p2, err := facproof.NewProofFromBytes(bz[:])
		if err != nil {
			return false, err
		}
		return p2.Verify(sess, ec, sk.N, NCap, s, t), nil
	}
	in.shifts = map[string]func(d *big.Int) []*big.Int{
		"A*s^d,T*Q^d,z1+d": func(d *big.Int) []*big.Int {
			c := cloneInts(comps)
			c[2].Mul(c[2], new(big.Int).Exp(s, d, NCap)).Mod(c[2], NCap)
			c[4].Mul(c[4], new(big.Int).Exp(pf.Q, d, NCap)).Mod(c[4], NCap)
			c[6].Add(c[6], d)
			return c
		},
		"B*s^d,z2+d": func(d *big.Int) []*big.Int {
			c := cloneInts(comps)
			c[3].Mul(c[3], new(big.Int).Exp(s, d, NCap)).Mod(c[3], NCap)
			c[7].Add(c[7], d)
			return c
		},
		"A*t^d,w1+d": func(d *big.Int) []*big.Int {
			c := cloneInts(comps)
			c[2].Mul(c[2], new(big.Int).Exp(t, d, NCap)).Mod(c[2], NCap)
			c[8].Add(c[8], d)
			return c
		},
		"B*t^d,w2+d": func(d *big.Int) []*big.Int {
			c := cloneInts(comps)
			c[3].Mul(c[3], new(big.Int).Exp(t, d, NCap)).Mod(c[3], NCap)
			c[9].Add(c[9], d)
			return c
		},
		"T*t^d,v+d": func(d *big.Int) []*big.Int {
			c := cloneInts(comps)
			c[4].Mul(c[4], new(big.Int).Exp(t, d, NCap)).Mod(c[4], NCap)
			c[10].Add(c[10], d)
			return c
		},
	}
	in.altStmts = map[string][]*big.Int{
		"other N0":        {other.PaillierSK.N, NCap, s, t},
		"s<->t":           {sk.N, NCap, t, s},
		"other verifier":  {sk.N, other.NTildei, other.H1i, other.H2i},
		"other NCap only": {sk.N, other.NTildei, s, t},
	}
	return in, nil
}

// ---------------------------------------------------------------- Alice range proof

func mkAlice(curve string, sk *paillier.PrivateKey, ver *keygen.LocalPreParams, other *keygen.LocalPreParams, m *big.Int) (*proofInst, error) {
	ec := ecOf(curve)
	pk := &sk.PublicKey
	c, rr, err := pk.EncryptAndReturnRandomness(rand.Reader, m)
	if err != nil {
		return nil, err
	}
	pf, err := mta.ProveRangeAlice(ec, pk, c, ver.NTildei, ver.H1i, ver.H2i, m, rr, rand.Reader)
	if err != nil {
		return nil, err
	}
	comps := []*big.Int{pf.Z, pf.U, pf.W, pf.S, pf.S1, pf.S2}
	in := &proofInst{sys: "alice-range", comps: comps, compNames: []string{"Z", "U", "W", "S", "S1", "S2"},
		stmt: []*big.Int{pk.N, ver.NTildei, ver.H1i, ver.H2i, c}, stmtNames: []string{"N", "NTilde", "h1", "h2", "c"}}
	build := func(cc []*big.Int) *mta.RangeProofAlice {
		return &mta.RangeProofAlice{Z: cc[0], U: cc[1], W: cc[2], S: cc[3], S1: cc[4], S2: cc[5]}
	}
	in.verify = func(cc []*big.Int, _ []byte, st []*big.Int) bool {
		return build(cc).Verify(ec, &paillier.PublicKey{N: st[0]}, st[1], st[2], st[3], st[4])
	}
	in.roundtrip = func() (bool, error) {
		bz := pf.Bytes()
		clobberSpare(bz[:])
		p2, err := mta.RangeProofAliceFromBytes(bz[:])
		if err != nil {
			return false, err
		}
		return p2.Verify(ec, pk, ver.NTildei, ver.H1i, ver.H2i, c), nil
	}
	N2 := pk.NSquare()
	in.shifts = map[string]func(d *big.Int) []*big.Int{
		"u*Gamma^d,w*h1^d,s1+d": func(d *big.Int) []*big.Int {
			cc := cloneInts(comps)
			cc[1].Mul(cc[1], new(big.Int).Exp(pk.Gamma(), d, N2)).Mod(cc[1], N2)
			cc[2].Mul(cc[2], new(big.Int).Exp(ver.H1i, d, ver.NTildei)).Mod(cc[2], ver.NTildei)
			cc[4].Add(cc[4], d)
			return cc
		},
		"w*h2^d,s2+d": func(d *big.Int) []*big.Int {
			cc := cloneInts(comps)
			cc[2].Mul(cc[2], new(big.Int).Exp(ver.H2i, d, ver.NTildei)).Mod(cc[2], ver.NTildei)
			cc[5].Add(cc[5], d)
			return cc
		},
		"u*x^N,s*x": func(d *big.Int) []*big.Int {
			cc := cloneInts(comps)
			x := new(big.Int).Add(new(big.Int).Mod(d, big.NewInt(1000003)), big2)
			cc[1].Mul(cc[1], new(big.Int).Exp(x, pk.N, N2)).Mod(cc[1], N2)
			cc[3].Mul(cc[3], x).Mod(cc[3], pk.N)
			return cc
		},
	}
	c2, _ := pk.Encrypt(rand.Reader, m)
	in.altStmts = map[string][]*big.Int{
		"other ciphertext (same m)": {pk.N, ver.NTildei, ver.H1i, ver.H2i, c2},
		"other key":                 {other.PaillierSK.N, ver.NTildei, ver.H1i, ver.H2i, c},
		"h1<->h2":                   {pk.N, ver.NTildei, ver.H2i, ver.H1i, c},
		"other verifier":            {pk.N, other.NTildei, other.H1i, other.H2i, c},
		// ciphertexts that are not units modulo N^2 (the prover knows its own factorisation)
		"c = multiple of P": {pk.N, ver.NTildei, ver.H1i, ver.H2i, new(big.Int).Mul(sk.P, big.NewInt(12345))},
		"c = N":             {pk.N, ver.NTildei, ver.H1i, ver.H2i, new(big.Int).Set(pk.N)},
		"c = 0":             {pk.N, ver.NTildei, ver.H1i, ver.H2i, big.NewInt(0)},
		"c = N^2":           {pk.N, ver.NTildei, ver.H1i, ver.H2i, pk.NSquare()},
	}
	return in, nil
}

// ---------------------------------------------------------------- Bob proofs

func mkBob(curve string, wc bool, skA *paillier.PrivateKey, ver *keygen.LocalPreParams, other *keygen.LocalPreParams, x, y *big.Int, sess []byte) (*proofInst, error) {
	ec := ecOf(curve)
	pk := &skA.PublicKey
	a := common.GetRandomPositiveInt(rand.Reader, ec.Params().N)
	c1, err := pk.Encrypt(rand.Reader, a)
	if err != nil {
		return nil, err
	}
	cy, rr, err := pk.EncryptAndReturnRandomness(rand.Reader, y)
	if err != nil {
		return nil, err
	}
	c2, err := pk.HomoMult(x, c1)
	if err != nil {
		return nil, err
	}
	c2, err = pk.HomoAdd(c2, cy)
	if err != nil {
		return nil, err
	}
	NT, h1, h2 := ver.NTildei, ver.H1i, ver.H2i
	var comps []*big.Int
	var names []string
	var X *crypto.ECPoint
	var pfB *mta.ProofBob
	var pfWC *mta.ProofBobWC
	if wc {
		X = crypto.ScalarBaseMult(ec, x)
		pfWC, err = mta.ProveBobWC(sess, ec, pk, NT, h1, h2, c1, c2, x, y, rr, X, rand.Reader)
		if err != nil {
			return nil, err
		}
		pfB = pfWC.ProofBob
	} else {
		pfB, err = mta.ProveBob(sess, ec, pk, NT, h1, h2, c1, c2, x, y, rr, rand.Reader)
		if err != nil {
			return nil, err
		}
	}
	comps = []*big.Int{pfB.Z, pfB.ZPrm, pfB.T, pfB.V, pfB.W, pfB.S, pfB.S1, pfB.S2, pfB.T1, pfB.T2}
	names = []string{"Z", "ZPrm", "T", "V", "W", "S", "S1", "S2", "T1", "T2"}
	stmt := []*big.Int{pk.N, NT, h1, h2, c1, c2}
	stmtNames := []string{"N", "NTilde", "h1", "h2", "c1", "c2"}
	sys := "bob"
	if wc {
		comps = append(comps, pfWC.U.X(), pfWC.U.Y())
		names = append(names, "U.x", "U.y")
		stmt = append(stmt, X.X(), X.Y())
		stmtNames = append(stmtNames, "X.x", "X.y")
		sys = "bob-wc"
	}
	in := &proofInst{sys: sys + "/" + curve, hasSess: true, sess: sess, comps: comps, compNames: names, stmt: stmt, stmtNames: stmtNames}
	build := func(c []*big.Int) *mta.ProofBob {
		return &mta.ProofBob{Z: c[0], ZPrm: c[1], T: c[2], V: c[3], W: c[4], S: c[5], S1: c[6], S2: c[7], T1: c[8], T2: c[9]}
	}
	in.verify = func(c []*big.Int, ss []byte, st []*big.Int) bool {
		p := &paillier.PublicKey{N: st[0]}
		if !wc {
			return build(c).Verify(ss, ec, p, st[1], st[2], st[3], st[4], st[5])
		}
		u := pointOrNil(ec, c[10], c[11])
		xx := pointOrNil(ec, st[6], st[7])
		if u == nil || xx == nil {
			return false
		}
		return (&mta.ProofBobWC{ProofBob: build(c), U: u}).Verify(ss, ec, p, st[1], st[2], st[3], st[4], st[5], xx)
	}
	in.roundtrip = func() (bool, error) {
		if !wc {
			bz := pfB.Bytes()
			clobberSpare(bz[:])
			p2, err := mta.ProofBobFromBytes(bz[:])
			if err != nil {
				return false, err
			}
			return p2.Verify(sess, ec, pk, NT, h1, h2, c1, c2), nil
		}
		bz := pfWC.Bytes()
		clobberSpare(bz[:])
		p2, err := mta.ProofBobWCFromBytes(ec, bz[:])
		if err != nil {
			return false, err
		}
		return p2.Verify(sess, ec, pk, NT, h1, h2, c1, c2, X), nil
	}
	N2 := pk.NSquare()
	in.shifts = map[string]func(d *big.Int) []*big.Int{
		"zPrm*h1^d,v*c1^d,s1+d": func(d *big.Int) []*big.Int {
			c := cloneInts(comps)
			c[1].Mul(c[1], new(big.Int).Exp(h1, d, NT)).Mod(c[1], NT)
			c[3].Mul(c[3], new(big.Int).Exp(c1, d, N2)).Mod(c[3], N2)
			c[6].Add(c[6], d)
			if wc {
				u2, err := pfWC.U.Add(crypto.ScalarBaseMult(ec, d))
				if err != nil {
					return nil
				}
				c[10], c[11] = u2.X(), u2.Y()
			}
			return c
		},
		"w*h1^d,v*Gamma^d,t1+d": func(d *big.Int) []*big.Int {
			c := cloneInts(comps)
			c[4].Mul(c[4], new(big.Int).Exp(h1, d, NT)).Mod(c[4], NT)
			c[3].Mul(c[3], new(big.Int).Exp(pk.Gamma(), d, N2)).Mod(c[3], N2)
			c[8].Add(c[8], d)
			return c
		},
		"zPrm*h2^d,s2+d": func(d *big.Int) []*big.Int {
			c := cloneInts(comps)
			c[1].Mul(c[1], new(big.Int).Exp(h2, d, NT)).Mod(c[1], NT)
			c[7].Add(c[7], d)
			return c
		},
		"w*h2^d,t2+d": func(d *big.Int) []*big.Int {
			c := cloneInts(comps)
			c[4].Mul(c[4], new(big.Int).Exp(h2, d, NT)).Mod(c[4], NT)
			c[9].Add(c[9], d)
			return c
		},
		"v*x^N,s*x": func(d *big.Int) []*big.Int {
			c := cloneInts(comps)
			x := new(big.Int).Add(new(big.Int).Mod(d, big.NewInt(1000003)), big2)
			c[3].Mul(c[3], new(big.Int).Exp(x, pk.N, N2)).Mod(c[3], N2)
			c[5].Mul(c[5], x).Mod(c[5], pk.N)
			return c
		},
	}
	c1b, _ := pk.Encrypt(rand.Reader, a)
	alt := map[string][]*big.Int{
		"other c1":       append([]*big.Int{pk.N, NT, h1, h2, c1b, c2}, stmt[6:]...),
		"c1<->c2":        append([]*big.Int{pk.N, NT, h1, h2, c2, c1}, stmt[6:]...),
		"other key":      append([]*big.Int{other.PaillierSK.N, NT, h1, h2, c1, c2}, stmt[6:]...),
		"h1<->h2":        append([]*big.Int{pk.N, NT, h2, h1, c1, c2}, stmt[6:]...),
		"other verifier": append([]*big.Int{pk.N, other.NTildei, other.H1i, other.H2i, c1, c2}, stmt[6:]...),
	}
	kp := new(big.Int).Mul(skA.P, big.NewInt(54321))
	alt["c1 = multiple of P"] = append([]*big.Int{pk.N, NT, h1, h2, kp, c2}, stmt[6:]...)
	alt["c2 = multiple of P"] = append([]*big.Int{pk.N, NT, h1, h2, c1, kp}, stmt[6:]...)
	alt["c1 = 0"] = append([]*big.Int{pk.N, NT, h1, h2, big.NewInt(0), c2}, stmt[6:]...)
	alt["c2 = N^2"] = append([]*big.Int{pk.N, NT, h1, h2, c1, N2}, stmt[6:]...)
	if wc {
		o := crypto.ScalarBaseMult(ec, new(big.Int).Add(new(big.Int).Mod(x, new(big.Int).Sub(ec.Params().N, big2)), big1))
		alt["other X"] = []*big.Int{pk.N, NT, h1, h2, c1, c2, o.X(), o.Y()}
	}
	in.altStmts = alt
	return in, nil
}

// clobberSpare overwrites the spare capacity behind every wire part - what a caller does that appends a separator or a
// checksum to a part it was handed (append writes into the spare capacity when there is some). The parts themselves are
// not touched; if they share a backing array, the later parts are.
func clobberSpare(parts [][]byte) {
	for _, p := range parts {
		if cap(p) > len(p) {
			sp := p[len(p):cap(p)]
			for i := range sp {
				sp[i] = 0xA5
			}
		}
	}
}
