package checks

import (
	"fmt"
	"math/big"
	"sort"
	"strings"

	"github.com/bnb-chain/tss-lib/v2/crypto"
	ecdsakeygen "github.com/bnb-chain/tss-lib/v2/ecdsa/keygen"
	eddsakeygen "github.com/bnb-chain/tss-lib/v2/eddsa/keygen"
	"github.com/bnb-chain/tss-lib/v2/tss"
)

// Deep, by-value snapshots of stored key data: big.Ints by value, points by coordinates and curve,
// slices by length and element. A snapshot is a flat map field-path -> canonical text.

type snap map[string]string

func putInt(s snap, k string, v *big.Int) {
	if v == nil {
		s[k] = "nil"
		return
	}
	s[k] = v.Text(16)
}

func putPt(s snap, k string, p *crypto.ECPoint) {
	if p == nil {
		s[k] = "nil"
		return
	}
	name, _ := tss.GetCurveName(p.Curve())
	s[k] = fmt.Sprintf("%s:%s,%s", name, p.X().Text(16), p.Y().Text(16))
}

func snapECDSA(d *ecdsakeygen.LocalPartySaveData) snap {
	s := snap{}
	if d.PaillierSK != nil {
		putInt(s, "PaillierSK.N", d.PaillierSK.N)
		putInt(s, "PaillierSK.LambdaN", d.PaillierSK.LambdaN)
		putInt(s, "PaillierSK.PhiN", d.PaillierSK.PhiN)
		putInt(s, "PaillierSK.P", d.PaillierSK.P)
		putInt(s, "PaillierSK.Q", d.PaillierSK.Q)
	} else {
		s["PaillierSK"] = "nil"
	}
	putInt(s, "NTildei", d.NTildei)
	putInt(s, "H1i", d.H1i)
	putInt(s, "H2i", d.H2i)
	putInt(s, "Alpha", d.Alpha)
	putInt(s, "Beta", d.Beta)
	putInt(s, "P", d.P)
	putInt(s, "Q", d.Q)
	putInt(s, "Xi", d.Xi)
	putInt(s, "ShareID", d.ShareID)
	s["len"] = fmt.Sprintf("%d/%d/%d/%d/%d/%d", len(d.Ks), len(d.NTildej), len(d.H1j), len(d.H2j), len(d.BigXj), len(d.PaillierPKs))
	for i := range d.Ks {
		putInt(s, fmt.Sprintf("Ks[%d]", i), d.Ks[i])
	}
	for i := range d.NTildej {
		putInt(s, fmt.Sprintf("NTildej[%d]", i), d.NTildej[i])
	}
	for i := range d.H1j {
		putInt(s, fmt.Sprintf("H1j[%d]", i), d.H1j[i])
	}
	for i := range d.H2j {
		putInt(s, fmt.Sprintf("H2j[%d]", i), d.H2j[i])
	}
	for i := range d.BigXj {
		putPt(s, fmt.Sprintf("BigXj[%d]", i), d.BigXj[i])
	}
	for i := range d.PaillierPKs {
		if d.PaillierPKs[i] == nil {
			s[fmt.Sprintf("PaillierPKs[%d]", i)] = "nil"
		} else {
			putInt(s, fmt.Sprintf("PaillierPKs[%d].N", i), d.PaillierPKs[i].N)
		}
	}
	putPt(s, "ECDSAPub", d.ECDSAPub)
	return s
}

func snapEDDSA(d *eddsakeygen.LocalPartySaveData) snap {
	s := snap{}
	putInt(s, "Xi", d.Xi)
	putInt(s, "ShareID", d.ShareID)
	s["len"] = fmt.Sprintf("%d/%d", len(d.Ks), len(d.BigXj))
	for i := range d.Ks {
		putInt(s, fmt.Sprintf("Ks[%d]", i), d.Ks[i])
	}
	for i := range d.BigXj {
		putPt(s, fmt.Sprintf("BigXj[%d]", i), d.BigXj[i])
	}
	putPt(s, "EDDSAPub", d.EDDSAPub)
	return s
}

func (a snap) diff(b snap) string {
	var out []string
	for k, v := range a {
		if w, ok := b[k]; !ok {
			out = append(out, k+" removed")
		} else if w != v {
			out = append(out, fmt.Sprintf("%s: %s -> %s", k, clipS(v, 24), clipS(w, 24)))
		}
	}
	for k := range b {
		if _, ok := a[k]; !ok {
			out = append(out, k+" added")
		}
	}
	sort.Strings(out)
	return strings.Join(out, "; ")
}

func clipS(s string, n int) string {
	if len(s) > n {
		return s[:n] + "…"
	}
	return s
}

func snapshotECDSA(ds []ecdsakeygen.LocalPartySaveData) []snap {
	out := make([]snap, len(ds))
	for i := range ds {
		out[i] = snapECDSA(&ds[i])
	}
	return out
}

func diffECDSA(before []snap, ds []ecdsakeygen.LocalPartySaveData) string {
	var out []string
	for i := range ds {
		if d := before[i].diff(snapECDSA(&ds[i])); d != "" {
			out = append(out, fmt.Sprintf("party %d: %s", i, d))
		}
	}
	return strings.Join(out, " | ")
}

func snapshotEDDSA(ds []eddsakeygen.LocalPartySaveData) []snap {
	out := make([]snap, len(ds))
	for i := range ds {
		out[i] = snapEDDSA(&ds[i])
	}
	return out
}

func diffEDDSA(before []snap, ds []eddsakeygen.LocalPartySaveData) string {
	var out []string
	for i := range ds {
		if d := before[i].diff(snapEDDSA(&ds[i])); d != "" {
			out = append(out, fmt.Sprintf("party %d: %s", i, d))
		}
	}
	return strings.Join(out, " | ")
}
