//go:build verif

package checks

import "github.com/bnb-chain/tss-lib/v2/tss"

// setVerifHook installs (or clears) the suspension-point hook; true = the hook exists in this build.
func setVerifHook(f func(point string, p tss.Party, m tss.ParsedMessage)) bool {
	tss.VerifHook = f
	return true
}
