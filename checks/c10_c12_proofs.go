package checks

import (
	"context"
	"crypto/rand"
	"fmt"
	"math/big"
	"time"

	"github.com/bnb-chain/tss-lib/v2/common"
	"github.com/bnb-chain/tss-lib/v2/crypto/paillier"
	"github.com/bnb-chain/tss-lib/v2/ecdsa/keygen"

	"verif/core"
	"verif/ref"
)

// C10 — every honestly generated proof verifies, also after encoding.
// C12 — proofs are bound to session, statement, prover; not malleable.
// Both use the uniform proof instances of proofsys.go.

func init() {
	core.Register(&core.Check{
		ID:    "C10",
		Level: "exploration",
		Rule: "each proof system x {vendored parameter sets (ordered pairs where two parties' parameters meet), a freshly generated small safe-prime set} x witness classes {1,2,q-1, leading-zero encodings, seeded, 0 where admissible} x sessions {empty,1 byte,32 bytes,1 kB}: " +
			"run the library prover, require Verify==true for the fresh proof and for the proof rebuilt from its wire parts. Class = (system, parameter set(s), witness class, session class); non-trivial when the prover returned a proof and the verifier was called.",
		Assumptions: []string{"rejections with probability <= 2^-200 by design (e.g. S1 < q) are ignored"},
		Gen:         c10Gen,
		Run:         c10Run,
		MinEvents:   []string{"proofs_verified", "roundtrips_verified"},
	})
	core.Register(&core.Check{
		ID:    "C12",
		Level: "fault_enumeration",
		Rule: "start from an accepted proof (library prover); enumerate session variants {one byte changed, extended, truncated, empty, index suffix changed}, statement variants {each component +1, complete alternative statements}, " +
			"proof-component perturbations {+1,-1,seeded random,neighbour's value,0} at the first, last and 8 seeded indices (quick) / every index (thorough) of every repeated part, and commitment/response shifts along the verifier's relation; every variant must be rejected. " +
			"Class = (system, parameter set, variant family); non-trivial when >=1 variant reached the verifier.",
		Assumptions: []string{"replacements by group-equivalent values (t+q, -x as fourth root) are not generated"},
		Gen:         c12Gen,
		Run:         c12Run,
		MinEvents:   []string{"variants_rejected", "baseline_accepted"},
	})
}

var sessClasses = map[string]func() []byte{
	"empty": func() []byte { return []byte{} },
	"1b":    func() []byte { return []byte{7} },
	"32b": func() []byte {
		b := make([]byte, 32)
		for i := range b {
			b[i] = byte(i*13 + 1)
		}
		return b
	},
	"1kB": func() []byte {
		b := make([]byte, 1024)
		for i := range b {
			b[i] = byte(i * 31)
		}
		return b
	},
	"ssid+idx": func() []byte {
		b := common.SHA512_256i(big.NewInt(1), big.NewInt(2)).Bytes()
		return append(b, 3)
	},
}

func witnessOf(class string, q *big.Int, rg interface{ Read([]byte) (int, error) }) *big.Int {
	switch class {
	case "0":
		return big.NewInt(0)
	case "1":
		return big.NewInt(1)
	case "2":
		return big.NewInt(2)
	case "q-1":
		return new(big.Int).Sub(q, big1)
	case "lz1": // top byte zero in a 32-byte encoding
		return new(big.Int).Sub(new(big.Int).Lsh(big1, 248), big.NewInt(5))
	case "lz3":
		return new(big.Int).Sub(new(big.Int).Lsh(big1, 232), big.NewInt(9))
	}
	b := make([]byte, 40)
	rg.Read(b)
	v := new(big.Int).Mod(new(big.Int).SetBytes(b), q)
	if v.Sign() == 0 {
		v.SetInt64(11)
	}
	return v
}

// smallSet generates a parameter set with a 512-bit Paillier modulus and a 512-bit NTilde (cached per process).
var smallSetCache *keygen.LocalPreParams

func smallSet() (*keygen.LocalPreParams, error) {
	if smallSetCache != nil {
		return smallSetCache, nil
	}
	ctx, cancel := context.WithTimeout(context.Background(), 20*time.Minute)
	defer cancel()
	sk, _, err := paillier.GenerateKeyPair(ctx, rand.Reader, 512, 4)
	if err != nil {
		return nil, err
	}
	sg, err := common.GetRandomSafePrimesConcurrent(ctx, 256, 2, 4, rand.Reader)
	if err != nil {
		return nil, err
	}
	P, Q := sg[0].SafePrime(), sg[1].SafePrime()
	p, q := sg[0].Prime(), sg[1].Prime()
	NT := new(big.Int).Mul(P, Q)
	pq := new(big.Int).Mul(p, q)
	f := common.GetRandomPositiveRelativelyPrimeInt(rand.Reader, NT)
	h1 := new(big.Int).Mod(new(big.Int).Mul(f, f), NT)
	var alpha, beta *big.Int
	for {
		alpha = common.GetRandomPositiveRelativelyPrimeInt(rand.Reader, NT)
		beta = new(big.Int).ModInverse(alpha, pq)
		if beta != nil {
			break
		}
	}
	h2 := new(big.Int).Exp(h1, alpha, NT)
	smallSetCache = &keygen.LocalPreParams{PaillierSK: sk, NTildei: NT, H1i: h1, H2i: h2, Alpha: alpha, Beta: beta, P: p, Q: q}
	return smallSetCache, nil
}

func paramSet(env *core.Env, idx int) (*keygen.LocalPreParams, error) {
	if idx < 0 {
		return smallSet()
	}
	pp, err := PreParams(env.Repo)
	if err != nil {
		return nil, err
	}
	return &pp[idx], nil
}

// buildInst makes the accepted instance described by the parameters.
func buildInst(env *core.Env, p core.P, label string) (*proofInst, error) {
	sys := p.Str("sys")
	curve := p.Str("curve")
	if curve == "" {
		curve = "secp256k1"
	}
	rg := rng(env.Seed, label)
	q := orderOf(curve)
	sess := sessClasses[p.Str("sess")]
	var sb []byte
	if sess != nil {
		sb = sess()
	}
	switch sys {
	case "schnorr":
		return mkSchnorr(curve, witnessOf(p.Str("w"), q, rg), sb)
	case "schnorrV":
		return mkSchnorrV(curve, witnessOf(p.Str("w"), q, rg), witnessOf(p.Str("w2"), q, rg), sb)
	}
	a, err := paramSet(env, p.Int("a"))
	if err != nil {
		return nil, err
	}
	b, err := paramSet(env, p.Int("b"))
	if err != nil {
		return nil, err
	}
	// a third parameter set, different from both a and b, supplies the "other key / other verifier" statements
	oi := 0
	for oi == p.Int("a") || oi == p.Int("b") {
		oi++
	}
	o, err := paramSet(env, oi)
	if err != nil {
		return nil, err
	}
	switch sys {
	case "dln":
		return mkDLN(a, b, p.Bool("second")), nil
	case "paillier-key":
		k := big.NewInt(1)
		if p.Str("w") != "1" {
			k = witnessOf(p.Str("w"), new(big.Int).Lsh(big1, 256), rg)
		}
		return mkPaillierProof(a.PaillierSK, b.PaillierSK.N, curve, k), nil
	case "mod":
		return mkMod(a.PaillierSK, b.PaillierSK.N, sb)
	case "fac":
		return mkFac(curve, a.PaillierSK, b, o, sb)
	case "alice":
		return mkAlice(curve, a.PaillierSK, b, o, witnessOf(p.Str("w"), q, rg))
	case "bob", "bob-wc":
		q5 := new(big.Int).Exp(q, big.NewInt(5), nil)
		var y *big.Int
		switch p.Str("w2") {
		case "0":
			y = big.NewInt(0)
		case "1":
			y = big.NewInt(1)
		case "q5-1":
			y = new(big.Int).Sub(q5, big1)
		default:
			y = randBig(rng(env.Seed, label+"y"), q5)
		}
		return mkBob(curve, sys == "bob-wc", a.PaillierSK, b, o, witnessOf(p.Str("w"), q, rg), y, sb)
	}
	return nil, fmt.Errorf("unknown system %q", sys)
}

func pairList(tier string) [][2]int {
	var out [][2]int
	for i := 0; i < 5; i++ {
		for j := 0; j < 5; j++ {
			if i == j {
				continue
			}
			if tier != "thorough" && (i+2*j)%5 != 1 {
				continue
			}
			out = append(out, [2]int{i, j})
		}
	}
	return out
}

func c10Gen(tier string, seed int64) []core.Case {
	var cs []core.Case
	add := func(p core.P, cost float64) {
		id := fmt.Sprintf("%s/%s/a%v-b%v/w=%v,%v/sess=%v%v", p.Str("sys"), p.Str("curve"), p["a"], p["b"], p["w"], p["w2"], p["sess"], p["second"])
		cs = append(cs, core.Case{ID: id, Class: id, Kind: "honest", P: p, Cost: cost})
	}
	ws := []string{"1", "2", "q-1", "lz1", "lz3", "seeded"}
	sessions := []string{"empty", "1b", "32b", "1kB", "ssid+idx"}
	for _, curve := range []string{"secp256k1", "ed25519"} {
		for wi, w := range ws {
			for si, s := range sessions {
				if tier != "thorough" && (wi+si)%2 == 1 {
					continue
				}
				add(core.P{"sys": "schnorr", "curve": curve, "w": w, "sess": s, "reps": tierN(tier, 3, 20)}, 0.2)
				add(core.P{"sys": "schnorrV", "curve": curve, "w": w, "w2": ws[(wi+2)%len(ws)], "sess": s, "reps": tierN(tier, 3, 20)}, 0.2)
			}
		}
		// Schnorr-V admits a zero witness in either slot (V = l*G or V = s*R), not in both
		for si, s := range sessions {
			if tier != "thorough" && si%2 == 1 {
				continue
			}
			add(core.P{"sys": "schnorrV", "curve": curve, "w": "0", "w2": "seeded", "sess": s, "reps": 2}, 0.2)
			add(core.P{"sys": "schnorrV", "curve": curve, "w": "q-1", "w2": "0", "sess": s, "reps": 2}, 0.2)
		}
	}
	sets := []int{0, 1, 2, 3, 4, -1}
	for _, a := range sets {
		other := (a + 1 + 5) % 5
		for _, second := range []bool{false, true} {
			add(core.P{"sys": "dln", "a": a, "b": other, "second": second, "reps": tierN(tier, 1, 4)}, 2)
		}
		for _, w := range []string{"1", "seeded"} {
			add(core.P{"sys": "paillier-key", "a": a, "b": other, "w": w, "curve": "secp256k1", "reps": tierN(tier, 1, 4)}, 1)
		}
		add(core.P{"sys": "paillier-key", "a": a, "b": other, "w": "seeded", "curve": "ed25519", "reps": 1}, 1)
		for si, s := range sessions {
			if tier != "thorough" && si%2 == 1 {
				continue
			}
			add(core.P{"sys": "mod", "a": a, "b": other, "sess": s, "reps": tierN(tier, 1, 3)}, 3)
		}
	}
	// the curve is a parameter of these proof systems: a second registered curve must work as well
	for pi, pr := range [][2]int{{0, 1}, {2, 3}, {4, 0}} {
		s := sessions[pi%len(sessions)]
		add(core.P{"sys": "fac", "a": pr[0], "b": pr[1], "sess": s, "curve": "ed25519", "reps": 1}, 1)
		add(core.P{"sys": "alice", "a": pr[0], "b": pr[1], "w": "seeded", "curve": "ed25519", "reps": 1}, 1)
		add(core.P{"sys": "bob", "a": pr[0], "b": pr[1], "w": "seeded", "w2": "seeded", "sess": s, "curve": "ed25519", "reps": 1}, 1.5)
		add(core.P{"sys": "bob-wc", "a": pr[0], "b": pr[1], "w": "q-1", "w2": "seeded", "sess": s, "curve": "ed25519", "reps": 1}, 1.5)
	}
	pairs := pairList(tier)
	pairs = append(pairs, [2]int{-1, 0}, [2]int{0, -1}, [2]int{-1, -1})
	for pi, pr := range pairs {
		for si, s := range sessions {
			if (pi+si)%len(sessions) != 0 && tier != "thorough" {
				continue
			}
			add(core.P{"sys": "fac", "a": pr[0], "b": pr[1], "sess": s, "curve": "secp256k1", "reps": tierN(tier, 1, 3)}, 1)
		}
		for wi, w := range append([]string{"0"}, ws...) {
			if tier != "thorough" && (pi+wi)%3 != 0 {
				continue
			}
			add(core.P{"sys": "alice", "a": pr[0], "b": pr[1], "w": w, "curve": "secp256k1", "reps": tierN(tier, 1, 3)}, 1)
		}
		for wi, w := range append([]string{"0"}, ws...) {
			for yi, y := range []string{"0", "1", "q5-1", "seeded"} {
				if tier != "thorough" && (pi+wi+yi)%5 != 0 {
					continue
				}
				if pr[0] < 0 {
					continue // a 512-bit Paillier modulus cannot hold Bob's q^5 mask: not a valid parameter set for this proof
				}
				s := sessions[(wi+yi)%len(sessions)]
				add(core.P{"sys": "bob", "a": pr[0], "b": pr[1], "w": w, "w2": y, "sess": s, "curve": "secp256k1", "reps": 1}, 1.5)
				if w != "0" {
					add(core.P{"sys": "bob-wc", "a": pr[0], "b": pr[1], "w": w, "w2": y, "sess": s, "curve": "secp256k1", "reps": 1}, 1.5)
				}
			}
		}
	}
	return cs
}

func c10Run(c core.Case, env *core.Env) core.Result {
	r := res(c)
	reps := c.P.Int("reps")
	if reps < 1 {
		reps = 1
	}
	for i := 0; i < reps; i++ {
		var in *proofInst
		var err error
		if p, msg, st := guard(func() { in, err = buildInst(env, c.P, fmt.Sprint(c.ID, i)) }); p {
			r.Fail("prover-panic:"+c.P.Str("sys"), "honest prover panicked: %s", msg)
			r.Witness = st
			return r
		}
		if err != nil {
			if c.P.Int("a") < 0 || c.P.Int("b") < 0 {
				r.Inconcl("small parameter set could not be built: %v", err)
			} else {
				r.Fail("prover-error:"+c.P.Str("sys"), "honest prover returned an error: %v", err)
			}
			return r
		}
		ok, pm := in.safeVerify(in.comps, in.sess, in.stmt)
		if pm != "" {
			r.Fail("verify-panic:"+in.sys, "verifier panicked on an honest proof: %s", pm)
			continue
		}
		if !ok {
			r.Fail("honest-rejected:"+in.sys, "honest proof rejected (%s)", c.ID)
			continue
		}
		r.Count("proofs_verified", 1)
		var rok bool
		var rerr error
		if p, msg, _ := guard(func() { rok, rerr = in.roundtrip() }); p {
			r.Fail("roundtrip-panic:"+in.sys, "encode/decode panicked: %s", msg)
			continue
		}
		if rerr != nil || !rok {
			r.Fail("roundtrip-rejected:"+in.sys, "proof rejected after encode/decode: ok=%v err=%v", rok, rerr)
			continue
		}
		r.Count("roundtrips_verified", 1)
		// verification has no side effect on the proof: the same in-memory proof verifies again, and encodes the same way
		ok2, pm2 := in.safeVerify(in.comps, in.sess, in.stmt)
		rok2, _ := in.roundtrip()
		if pm2 != "" || !ok2 || !rok2 {
			r.Fail("second-verify-rejected:"+in.sys, "an honest proof that verified once is rejected when verified (%v) / encoded and verified (%v) a second time %s", ok2, rok2, pm2)
			continue
		}
		r.Count("second_verifications", 1)
		// histograms that show which branches of the provers were exercised
		switch c.P.Str("sys") {
		case "mod":
			A, B := in.comps[81], in.comps[82]
			for k := 0; k < 80; k++ {
				r.Count(fmt.Sprintf("mod_twist_a%db%d", A.Bit(k), B.Bit(k)), 1)
			}
		case "dln":
			msg := append([]*big.Int{in.stmt[0], in.stmt[1], in.stmt[2]}, in.comps[:128]...)
			ch := common.SHA512_256i(msg...)
			ones := 0
			for k := 0; k < 128; k++ {
				ones += int(ch.Bit(k))
			}
			r.Count("dln_challenge_bits_one", int64(ones))
			r.Count("dln_challenge_bits_zero", int64(128-ones))
		}
		for k, cv := range in.comps {
			if l := len(cv.Bytes()); l > 0 && cv.BitLen() <= (l-1)*8+1 && k < 16 {
				_ = l
			}
		}
	}
	r.NonTrivial = r.Obs["proofs_verified"] > 0
	if c.P.Str("sys") == "bob-wc" || c.P.Str("sys") == "fac" {
		r.Sample = map[string]any{"case": c.ID, "proofs_verified": r.Obs["proofs_verified"], "roundtrips": r.Obs["roundtrips_verified"]}
	}
	return r
}

// ---------------------------------------------------------------- C12

func c12Gen(tier string, seed int64) []core.Case {
	var cs []core.Case
	add := func(p core.P, cost float64) {
		id := fmt.Sprintf("%s/%s/a%v-b%v/%v", p.Str("sys"), p.Str("curve"), p["a"], p["b"], p.Str("family"))
		cs = append(cs, core.Case{ID: id, Class: id, Kind: "bind", P: p, Cost: cost})
	}
	fams := []string{"session", "statement", "components", "shifts"}
	sets := []int{0, 3}
	if tier == "thorough" {
		sets = []int{0, 1, 2, 3, 4}
	}
	for _, fam := range fams {
		for _, curve := range []string{"secp256k1", "ed25519"} {
			add(core.P{"sys": "schnorr", "curve": curve, "w": "seeded", "sess": "ssid+idx", "family": fam}, 0.5)
			add(core.P{"sys": "schnorrV", "curve": curve, "w": "seeded", "w2": "seeded", "sess": "ssid+idx", "family": fam}, 0.5)
		}
		for _, a := range sets {
			b := (a + 1) % 5
			if fam != "session" {
				add(core.P{"sys": "dln", "a": a, "b": b, "family": fam}, 30)
				if fam != "shifts" { // no commitment/response pair in this proof
					add(core.P{"sys": "paillier-key", "a": a, "b": b, "w": "seeded", "curve": "secp256k1", "family": fam}, 3)
				}
				add(core.P{"sys": "alice", "a": a, "b": b, "w": "seeded", "curve": "secp256k1", "family": fam}, 3)
			}
			if fam != "shifts" {
				add(core.P{"sys": "mod", "a": a, "b": b, "sess": "ssid+idx", "family": fam}, 30)
			}
			add(core.P{"sys": "fac", "a": a, "b": b, "sess": "ssid+idx", "curve": "secp256k1", "family": fam}, 3)
			add(core.P{"sys": "bob", "a": a, "b": b, "w": "seeded", "w2": "seeded", "sess": "ssid+idx", "curve": "secp256k1", "family": fam}, 4)
			add(core.P{"sys": "bob-wc", "a": a, "b": b, "w": "seeded", "w2": "seeded", "sess": "ssid+idx", "curve": "secp256k1", "family": fam}, 4)
		}
	}
	return cs
}

func c12Run(c core.Case, env *core.Env) core.Result {
	r := res(c)
	in, err := buildInst(env, c.P, c.ID)
	if err != nil {
		r.Inconcl("could not build the baseline instance: %v", err)
		return r
	}
	ok, pm := in.safeVerify(in.comps, in.sess, in.stmt)
	if pm != "" || !ok {
		r.Inconcl("baseline proof not accepted (%s) — this is C10's business", pm)
		return r
	}
	r.Count("baseline_accepted", 1)
	rg := rng(env.Seed, c.ID+"/variants")
	reject := func(what string, comps []*big.Int, sess []byte, stmt []*big.Int) {
		if comps == nil {
			return
		}
		ok, pm := in.safeVerify(comps, sess, stmt)
		if pm != "" {
			r.Fail("verifier-panic:"+in.sys+":"+what, "verifier panicked instead of rejecting (%s): %s", what, pm)
			return
		}
		if ok {
			r.Fail("accepted:"+in.sys+":"+what, "verifier ACCEPTED the variant: %s", what)
			return
		}
		r.Count("variants_rejected", 1)
	}
	switch c.P.Str("family") {
	case "session":
		if !in.hasSess {
			r.Inconcl("system has no session argument")
			return r
		}
		s := in.sess
		flip := append([]byte{}, s...)
		flip[len(flip)/2] ^= 0x01
		reject("session: one bit changed", in.comps, flip, in.stmt)
		flipLast := append([]byte{}, s...)
		flipLast[len(flipLast)-1] ^= 0x02 // the index suffix
		reject("session: index suffix changed", in.comps, flipLast, in.stmt)
		reject("session: extended", in.comps, append(append([]byte{}, s...), 0), in.stmt)
		reject("session: extended by index 1", in.comps, append(append([]byte{}, s...), 1), in.stmt)
		reject("session: truncated", in.comps, s[:len(s)-1], in.stmt)
		reject("session: empty", in.comps, []byte{}, in.stmt)
		reject("session: leading zero added", in.comps, append([]byte{0}, s...), in.stmt)
		reject("session: other ssid same index", in.comps, append(randBytes(rg, len(s)-1), s[len(s)-1]), in.stmt)
		// a verifier loop that keeps one context buffer and rewrites it in place per participant
		buf := append([]byte{}, s...)
		if ok, _ := in.safeVerify(in.comps, buf, in.stmt); !ok {
			r.Fail("rejected:"+in.sys+":same session in another buffer", "the proof is rejected under a copy of its own session string")
		}
		buf[len(buf)-1] ^= 0x02
		reject("session: index suffix rewritten in place in the buffer used for the previous call", in.comps, buf, in.stmt)
		buf[len(buf)-1] ^= 0x02
		buf[0] ^= 0x80
		reject("session: first byte rewritten in place in the buffer used for the previous call", in.comps, buf, in.stmt)
		buf[0] ^= 0x80
		if ok, _ := in.safeVerify(in.comps, buf, in.stmt); !ok {
			r.Fail("rejected:"+in.sys+":session restored in place", "the proof is rejected after the caller's session buffer was changed and changed back")
		}
	case "statement":
		for i := range in.stmt {
			st := cloneInts(in.stmt)
			st[i].Add(st[i], big1)
			reject("statement: "+in.stmtNames[i]+"+1", in.comps, in.sess, st)
			st = cloneInts(in.stmt)
			if st[i].Sign() > 0 {
				st[i].Sub(st[i], big1)
				reject("statement: "+in.stmtNames[i]+"-1", in.comps, in.sess, st)
			}
		}
		for what, st := range in.altStmts {
			reject("statement: "+what, in.comps, in.sess, st)
		}
	case "components":
		idx := map[int]bool{}
		n := len(in.comps)
		if env.Tier == "thorough" || n <= 16 {
			for i := 0; i < n; i++ {
				idx[i] = true
			}
		} else {
			// first and last of every repeated part + 8 seeded
			prev := ""
			for i, nm := range in.compNames {
				base := nm
				if k := indexOfByte(nm, '['); k >= 0 {
					base = nm[:k]
				}
				if base != prev {
					idx[i] = true
					if i > 0 {
						idx[i-1] = true
					}
				}
				prev = base
			}
			idx[n-1] = true
			for k := 0; k < 8; k++ {
				idx[rg.Intn(n)] = true
			}
		}
		for i := range in.comps {
			if !idx[i] {
				continue
			}
			name := in.compNames[i]
			base := name
			if k := indexOfByte(name, '['); k >= 0 {
				base = name[:k] + "[i]"
			}
			mut := func(what string, v *big.Int) {
				if v == nil || v.Sign() < 0 || v.Cmp(in.comps[i]) == 0 {
					return
				}
				cc := cloneInts(in.comps)
				cc[i] = v
				reject("component "+base+" "+what, cc, in.sess, in.stmt)
			}
			mut("+1", new(big.Int).Add(in.comps[i], big1))
			mut("-1", new(big.Int).Sub(in.comps[i], big1))
			mut("random", randBits(rg, in.comps[i].BitLen()+1))
			if i+1 < n {
				mut("<-next", new(big.Int).Set(in.comps[i+1]))
			}
			if i > 0 {
				mut("<-prev", new(big.Int).Set(in.comps[i-1]))
			}
			mut("=0", big.NewInt(0))
			// the negation of a scalar (order of either curve) or of a coordinate (either field prime): the negated
			// response / the mirrored point is a different group element with the same x coordinate or the same square
			for mn, M := range map[string]*big.Int{"secp256k1 order": ref.SecpN, "secp256k1 field": ref.SecpP, "ed25519 order": ref.EdL, "ed25519 field": ref.EdP} {
				if in.comps[i].Sign() > 0 && in.comps[i].Cmp(M) < 0 {
					mut("negated mod "+mn, new(big.Int).Sub(M, in.comps[i]))
				}
			}
			r.Count("component_indices", 1)
		}
	case "shifts":
		if len(in.shifts) == 0 {
			r.Inconcl("system has no commitment/response pair to shift")
			return r
		}
		for what, f := range in.shifts {
			for _, d := range []*big.Int{big.NewInt(1), big.NewInt(2), randBits(rg, 64), randBits(rg, 250)} {
				if d.Sign() == 0 {
					continue
				}
				var cc []*big.Int
				if p, _, _ := guard(func() { cc = f(d) }); p || cc == nil {
					continue
				}
				reject("shift "+what, cc, in.sess, in.stmt)
			}
		}
	}
	r.NonTrivial = r.Obs["variants_rejected"] > 0
	if c.P.Str("sys") == "fac" || c.P.Str("sys") == "schnorr" {
		r.Sample = map[string]any{"case": c.ID, "variants_rejected": r.Obs["variants_rejected"], "components": len(in.comps)}
	}
	return r
}

func indexOfByte(s string, b byte) int {
	for i := 0; i < len(s); i++ {
		if s[i] == b {
			return i
		}
	}
	return -1
}
