package checks

import (
	"crypto/elliptic"
	"crypto/rand"
	"fmt"
	"math/big"

	"github.com/bnb-chain/tss-lib/v2/crypto"
	"github.com/bnb-chain/tss-lib/v2/crypto/vss"
	"github.com/bnb-chain/tss-lib/v2/tss"

	"verif/core"
	"verif/ref"
)

// C15 — Feldman VSS: shares verify, reconstruct with t+1, bad input refused.

func init() {
	core.Register(&core.Check{
		ID:    "C15",
		Level: "exploration",
		Rule: "for each curve, each (t,n) with 1<=t<n<=5 (quick) / <=6 plus sampled up to (10,20) (thorough), each id pattern {small, large, >=q, near-q, seeded} and each secret class {1, q-1, seeded, 0}: deal with the real vss.Create, " +
			"then check every share under every id, Vs[0] against reference arithmetic, every subset of shares (all sizes) through ReConstruct, the reference Lagrange polynomial test, every single alteration, and the refusal cases. " +
			"Class = (curve,t,n,id pattern,secret class); non-trivial when >=1 subset was reconstructed and >=1 alteration tried.",
		Assumptions: []string{"reference secp256k1/edwards25519 arithmetic in ref/ is correct (known-answer tested in setup)"},
		Gen:         c15Gen,
		Run:         c15Run,
		MinEvents:   []string{"shares_verified", "subsets_reconstructed", "alterations_rejected", "dealing_refused"},
	})
}

func ecOf(curve string) elliptic.Curve {
	if isEd(curve) {
		return tss.Edwards()
	}
	return tss.S256()
}

func c15Ids(pattern string, n int, q *big.Int, rg interface{ Read([]byte) (int, error) }, seed int64, label string) []*big.Int {
	ids := make([]*big.Int, n)
	r := rng(seed, label)
	for i := range ids {
		switch pattern {
		case "small":
			ids[i] = big.NewInt(int64(i + 1))
		case "large":
			ids[i] = new(big.Int).Add(new(big.Int).Lsh(big1, 251), big.NewInt(int64(i*7+3)))
		case "u64": // machine-word sized ids near the top of the uint64 range
			ids[i] = new(big.Int).Sub(new(big.Int).Lsh(big1, 64), big.NewInt(int64(1+3*i)))
		case "u32": // ids around 2^32: the square leaves 64 bits
			ids[i] = new(big.Int).Add(new(big.Int).Lsh(big1, 32), big.NewInt(int64(5*i+1)))
		case "geq":
			ids[i] = new(big.Int).Add(q, big.NewInt(int64(i+1))) // >= q, distinct and non-zero mod q
		case "nearq":
			ids[i] = new(big.Int).Sub(q, big.NewInt(int64(n-i)))
		default:
			for {
				ids[i] = randBits(r, 256)
				m := new(big.Int).Mod(ids[i], q)
				dup := m.Sign() == 0
				for j := 0; j < i; j++ {
					if new(big.Int).Mod(ids[j], q).Cmp(m) == 0 {
						dup = true
					}
				}
				if !dup {
					break
				}
			}
		}
	}
	return ids
}

func c15Gen(tier string, seed int64) []core.Case {
	var cs []core.Case
	maxN := tierN(tier, 5, 6)
	for _, curve := range []string{"secp256k1", "ed25519"} {
		for n := 2; n <= maxN; n++ {
			for t := 1; t < n; t++ {
				for pi, pat := range []string{"small", "large", "geq", "nearq", "seeded"} {
					if tier != "thorough" && n >= 4 && (pi+n+t)%2 == 1 && pat != "small" {
						continue // quick: thin out the larger configurations
					}
					for _, sec := range []string{"one", "qm1", "seeded"} {
						if tier != "thorough" && sec != "seeded" && pat != "small" {
							continue
						}
						id := fmt.Sprintf("deal/%s/t%d-n%d/%s/%s", curve, t, n, pat, sec)
						cs = append(cs, core.Case{ID: id, Class: id, Kind: "deal", Cost: 0.5 + float64(n)*0.3,
							P: core.P{"curve": curve, "t": t, "n": n, "pat": pat, "sec": sec}})
					}
				}
			}
		}
		for _, tn := range [][2]int{{7, 12}, {10, 20}, {3, 16}} {
			if tier != "thorough" && tn[1] > 12 {
				continue
			}
			id := fmt.Sprintf("deal/%s/t%d-n%d/seeded/seeded", curve, tn[0], tn[1])
			cs = append(cs, core.Case{ID: id, Class: id, Kind: "deal", Cost: 6,
				P: core.P{"curve": curve, "t": tn[0], "n": tn[1], "pat": "seeded", "sec": "seeded", "sample": true}})
		}
		// ids that fit a machine word, with thresholds for which id^t does not (64-bit ids with t >= 2, 32-bit ids with
		// t >= 3, the ids 1..20 with t = 16: 20^16 > 2^64)
		for _, c := range []struct {
			pat  string
			t, n int
		}{{"u64", 2, 4}, {"u64", 3, 5}, {"u32", 3, 5}, {"u32", 2, 4}, {"small", 16, 20}, {"small", 13, 18}} {
			id := fmt.Sprintf("deal/%s/t%d-n%d/%s/seeded", curve, c.t, c.n, c.pat)
			cs = append(cs, core.Case{ID: id, Class: id, Kind: "deal", Cost: 3,
				P: core.P{"curve": curve, "t": c.t, "n": c.n, "pat": c.pat, "sec": "seeded", "sample": c.n > 12}})
		}
		// both curves in one process with the same ids (a service that holds a secp256k1 and an edwards25519 key and gives its
		// parties one id): whatever the library remembers between calls must not carry over from one group order to the other
		for _, c := range []struct {
			pat  string
			t, n int
		}{{"large", 2, 4}, {"seeded", 3, 5}, {"u64", 4, 5}, {"small", 2, 3}} {
			id := fmt.Sprintf("twocurves/%s-first/t%d-n%d/%s", curve, c.t, c.n, c.pat)
			cs = append(cs, core.Case{ID: id, Class: id, Kind: "twocurves", Cost: 4, P: core.P{"curve": curve, "t": c.t, "n": c.n, "pat": c.pat, "sec": "seeded"}})
		}
		cs = append(cs, core.Case{ID: "refuse/" + curve, Class: "refuse/" + curve, Kind: "refuse", Cost: 1, P: core.P{"curve": curve}})
		cs = append(cs, core.Case{ID: "zero-secret/" + curve, Class: "zero-secret/" + curve, Kind: "zero", Cost: 1, P: core.P{"curve": curve}})
	}
	return cs
}

func c15Run(c core.Case, env *core.Env) core.Result {
	r := res(c)
	curve := c.P.Str("curve")
	ec := ecOf(curve)
	q := ec.Params().N
	switch c.Kind {
	case "twocurves":
		other := "ed25519"
		if isEd(curve) {
			other = "secp256k1"
		}
		for pass, cv := range []string{curve, other, curve, other} {
			sub := c
			sub.Kind = "deal"
			sub.P = core.P{}
			for k, v := range c.P {
				sub.P[k] = v
			}
			sub.P["curve"] = cv
			sub.P["idlabel"] = c.ID // the same ids on both curves
			rr := c15Run(sub, env)
			for k, v := range rr.Obs {
				r.Count(k, v)
			}
			if rr.Verdict == core.Violated {
				r.Fail("twocurves:"+rr.Sig, "pass %d (%s after the other curve was used with the same ids in this process): %s", pass+1, cv, rr.Msg)
			} else if rr.Verdict == core.Inconclusive {
				r.Inconcl("%s", rr.Msg)
			}
			r.NonTrivial = r.NonTrivial || rr.NonTrivial
		}
		r.Count("two_curve_sequences", 1)
		return r
	case "refuse":
		c15Refuse(&r, curve, ec, q, env.Seed)
		return r
	case "zero":
		// secret = 0: Vs[0] would be the identity. Create must return (shares or an error), not panic.
		ids := c15Ids("small", 3, q, nil, env.Seed, "z")
		var err error
		var vs vss.Vs
		if p, msg, st := guard(func() { vs, _, err = vss.Create(ec, 1, big.NewInt(0), ids, rand.Reader) }); p {
			r.Fail("create-panic:secret=0:"+curve, "vss.Create panicked for secret 0 on %s: %s", curve, msg)
			r.Witness = st
		} else if err == nil {
			if !(isEd(curve) && vs[0].X().Sign() == 0 && vs[0].Y().Cmp(big1) == 0) {
				r.Fail("create-zero-commitment", "Create(secret=0) returned a non-identity first commitment")
			}
		}
		r.Count("dealing_refused", 1)
		r.NonTrivial = true
		return r
	}
	t, n := c.P.Int("t"), c.P.Int("n")
	idLabel := c.ID
	if c.P.Has("idlabel") {
		idLabel = c.P.Str("idlabel")
	}
	ids := c15Ids(c.P.Str("pat"), n, q, nil, env.Seed, idLabel)
	rg := rng(env.Seed, c.ID+"/secret")
	var secret *big.Int
	switch c.P.Str("sec") {
	case "one":
		secret = big.NewInt(1)
	case "qm1":
		secret = new(big.Int).Sub(q, big1)
	default:
		secret = randBig(rg, q)
		if secret.Sign() == 0 {
			secret = big.NewInt(5)
		}
	}
	vs, shares, err := vss.Create(ec, t, secret, ids, rand.Reader)
	if err != nil {
		r.Fail("create-refuses", "Create refused admissible input (ids %s): %v", c.P.Str("pat"), err)
		return r
	}
	if len(vs) != t+1 || len(shares) != n {
		r.Fail("create-shape", "Create returned %d commitments and %d shares for t=%d n=%d", len(vs), len(shares), t, n)
		return r
	}
	// first commitment = secret*G by reference arithmetic
	if !samePt(vs[0], refBaseMul(curve, secret)) {
		r.Fail("v0", "Vs[0] != secret*G (reference arithmetic)")
	}
	// every share verifies under its own id and under no other id / id+1
	for i, sh := range shares {
		if sh.ID.Cmp(ids[i]) != 0 || sh.Threshold != t {
			r.Fail("share-meta", "share %d carries id/threshold %v/%d", i, sh.ID, sh.Threshold)
		}
		if !sh.Verify(ec, t, vs) {
			r.Fail("share-verify", "honest share %d does not verify", i)
		}
		r.Count("shares_verified", 1)
		for j := range ids {
			if j == i {
				continue
			}
			w := &vss.Share{Threshold: t, ID: ids[j], Share: sh.Share}
			if w.Verify(ec, t, vs) {
				r.Fail("share-other-id", "share %d verifies under id of %d", i, j)
			}
			r.Count("alterations_rejected", 1)
		}
		w := &vss.Share{Threshold: t, ID: new(big.Int).Add(sh.ID, big1), Share: sh.Share}
		if w.Verify(ec, t, vs) {
			r.Fail("share-id+1", "share %d verifies under id+1", i)
		}
		// altered share value
		for _, d := range []*big.Int{big1, new(big.Int).Sub(q, big2)} {
			w := &vss.Share{Threshold: t, ID: sh.ID, Share: new(big.Int).Mod(new(big.Int).Add(sh.Share, d), q)}
			if w.Verify(ec, t, vs) {
				r.Fail("share-altered", "altered share %d verifies", i)
			}
			r.Count("alterations_rejected", 1)
		}
		// the negated share: share*G and (q-share)*G have the same x coordinate on secp256k1
		if neg := new(big.Int).Sub(q, new(big.Int).Mod(sh.Share, q)); neg.Cmp(new(big.Int).Mod(sh.Share, q)) != 0 && neg.Cmp(q) != 0 {
			if (&vss.Share{Threshold: t, ID: sh.ID, Share: neg}).Verify(ec, t, vs) {
				r.Fail("share-negated", "share %d negated modulo q verifies", i)
			}
			r.Count("alterations_rejected", 1)
		}
		// wrong threshold / wrong number of commitments
		if (&vss.Share{Threshold: t + 1, ID: sh.ID, Share: sh.Share}).Verify(ec, t, vs) {
			r.Fail("share-threshold", "share with a different threshold verifies")
		}
		if sh.Verify(ec, t, vs[:t]) {
			r.Fail("vs-short", "share verifies against t commitments")
		}
		ext := append(append(vss.Vs{}, vs...), vs[0])
		if sh.Verify(ec, t, ext) {
			r.Fail("vs-long", "share verifies against t+2 commitments")
		}
	}
	// an id that is 0 modulo the group order evaluates the polynomial at 0: the "share" would be the secret itself. No such
	// id is admissible, so nothing may verify under it - not even the secret (which, on a curve whose identity is an
	// ordinary point, satisfies the equation sum_k 0^k V_k = V_0)
	for _, zid := range []*big.Int{big.NewInt(0), new(big.Int).Set(q), new(big.Int).Lsh(q, 1), new(big.Int).Mul(q, big.NewInt(3))} {
		for what, val := range map[string]*big.Int{"the secret": new(big.Int).Mod(secret, q), "the secret + q": new(big.Int).Add(new(big.Int).Mod(secret, q), q), "a dealt share": shares[0].Share, "0": big.NewInt(0)} {
			var ok bool
			if p, msg, _ := guard(func() { ok = (&vss.Share{Threshold: t, ID: zid, Share: val}).Verify(ec, t, vs) }); p {
				r.Fail("share-zero-id-panic", "Verify panicked for id %s (0 mod q) with share value %s: %s", hx(zid), what, msg)
			} else if ok {
				r.Fail("share-zero-id", "a share with id %s (0 modulo the group order) and value %s verifies", hx(zid), what)
			}
			r.Count("alterations_rejected", 1)
			r.Count("zero_id_probes", 1)
		}
	}
	// commitments replaced by coordinate pairs that are not points of the curve (a receiver holds whatever the decoder or
	// the caller gave it): x+-1, x+-2 (ed25519 point compression keeps only the parity of x), y+1, x+p
	{
		fp := ref.SecpP
		if isEd(curve) {
			fp = ref.EdP
		}
		for k := range vs {
			for what, d := range map[string][2]*big.Int{
				"x+1": {big1, big0}, "x+2": {big2, big0}, "x-2": {big.NewInt(-2), big0}, "x-1": {big.NewInt(-1), big0}, "y+1": {big0, big1}, "y+2": {big0, big2}, "x+p": {fp, big0}, "y+p": {big0, fp},
			} {
				nx, ny := new(big.Int).Add(vs[k].X(), d[0]), new(big.Int).Add(vs[k].Y(), d[1])
				if nx.Sign() < 0 {
					continue
				}
				alt := append(vss.Vs{}, vs...)
				alt[k] = crypto.NewECPointNoCurveCheck(ec, nx, ny)
				okAny := false
				if p, msg, _ := guard(func() {
					for _, sh := range shares {
						if sh.Verify(ec, t, alt) {
							okAny = true
						}
					}
				}); p {
					r.Fail("vs-offcurve-panic", "Verify panicked with Vs[%d] replaced by the off-curve pair %s: %s", k, what, msg)
					continue
				}
				if okAny {
					r.Fail("vs-offcurve:"+what, "a share verifies although Vs[%d] was replaced by %s of its coordinates (not a curve point)", k, what)
				}
				r.Count("alterations_rejected", int64(len(shares)))
				r.Count("offcurve_commitments", 1)
			}
		}
	}
	// a dealer that deals a polynomial of another degree and labels the shares with threshold t: the number of
	// commitments is the degree bound, so these self-consistent dealings must not verify for threshold t
	for _, tt := range []int{t - 1, t + 1} {
		if tt < 1 || tt >= n {
			continue
		}
		vsO, sharesO, err := vss.Create(ec, tt, secret, ids, rand.Reader)
		if err != nil {
			continue
		}
		bad := 0
		for _, sh := range sharesO {
			if (&vss.Share{Threshold: t, ID: sh.ID, Share: sh.Share}).Verify(ec, t, vsO) {
				bad++
			}
		}
		if bad > 0 {
			r.Fail("degree-bound", "%d shares of a degree-%d dealing (%d commitments) verify for threshold %d", bad, tt, len(vsO), t)
		}
		r.Count("alterations_rejected", int64(len(sharesO)))
		r.Count("other_degree_dealings", 1)
	}
	// altered commitments: each Vs[k] replaced by Vs[k]+G
	g := crypto.ScalarBaseMult(ec, big1)
	for k := range vs {
		alt := append(vss.Vs{}, vs...)
		p, err := vs[k].Add(g)
		if err != nil {
			continue
		}
		alt[k] = p
		bad := 0
		for _, sh := range shares {
			if sh.Verify(ec, t, alt) {
				bad++
			}
		}
		// changing coefficient k changes the value at every id != 0 (k=0) or every id (k>0): no share may verify
		if bad > 0 {
			r.Fail("vs-altered", "%d shares verify after Vs[%d] was altered", bad, k)
		}
		r.Count("alterations_rejected", int64(len(shares)))
	}
	// shares lie on one polynomial of degree t with f(0)=secret: reference Lagrange through the first t+1, predict the rest
	rid := make([]*big.Int, n)
	ry := make([]*big.Int, n)
	for i, sh := range shares {
		rid[i] = new(big.Int).Mod(sh.ID, q)
		ry[i] = new(big.Int).Mod(sh.Share, q)
	}
	if ref.InterpolateAt(rid[:t+1], ry[:t+1], big0, q).Cmp(new(big.Int).Mod(secret, q)) != 0 {
		r.Fail("poly-secret", "reference interpolation of the first t+1 shares at 0 is not the secret")
	}
	for k := t + 1; k < n; k++ {
		if ref.InterpolateAt(rid[:t+1], ry[:t+1], rid[k], q).Cmp(ry[k]) != 0 {
			r.Fail("poly-degree", "share %d is not on the degree-%d polynomial through the first t+1 shares", k, t)
		}
	}
	// every subset through the library's ReConstruct
	sample := c.P.Bool("sample")
	sub := rng(env.Seed, c.ID+"/subsets")
	total := 1 << uint(n)
	var masks []int
	if sample {
		// large n: the full set, the first and last t+1, seeded subsets of every size from t to n
		full := total - 1
		masks = append(masks, full, (1<<uint(t+1))-1, full&^((1<<uint(n-t-1))-1))
		for size := t; size <= n; size++ {
			for rep := 0; rep < 4; rep++ {
				m := 0
				for _, i := range sub.Perm(n)[:size] {
					m |= 1 << uint(i)
				}
				masks = append(masks, m)
			}
		}
	} else {
		for mask := 1; mask < total; mask++ {
			masks = append(masks, mask)
		}
	}
	for _, mask := range masks {
		var ss vss.Shares
		for i := 0; i < n; i++ {
			if mask&(1<<uint(i)) != 0 {
				ss = append(ss, shares[i])
			}
		}
		var got *big.Int
		var rerr error
		if p, msg, _ := guard(func() { got, rerr = ss.ReConstruct(ec) }); p {
			r.Fail("reconstruct-panic", "ReConstruct panicked on a subset of size %d: %s", len(ss), msg)
			continue
		}
		if len(ss) >= t+1 {
			r.Count("subsets_reconstructed", 1)
			if rerr != nil || got.Cmp(new(big.Int).Mod(secret, q)) != 0 {
				r.Fail("reconstruct", "subset %b (size %d >= t+1) reconstructs %v err=%v", mask, len(ss), hx(got), rerr)
			}
		} else {
			r.Count("subsets_too_small", 1)
			if rerr == nil && got.Cmp(new(big.Int).Mod(secret, q)) == 0 {
				r.Fail("reconstruct-too-few", "subset %b of size %d <= t reconstructs the secret", mask, len(ss))
			}
		}
	}
	r.NonTrivial = r.Obs["subsets_reconstructed"] > 0 && r.Obs["alterations_rejected"] > 0
	if t == 1 && n == 3 {
		r.Sample = map[string]any{"case": c.ID, "ids": []string{hx(ids[0]), hx(ids[1]), hx(ids[2])}, "subsets_checked": r.Obs["subsets_reconstructed"] + r.Obs["subsets_too_small"]}
	}
	return r
}

func c15Refuse(r *core.Result, curve string, ec elliptic.Curve, q *big.Int, seed int64) {
	two := new(big.Int).Lsh(q, 1)
	bad := map[string][]*big.Int{
		"id=0":         {big.NewInt(1), big.NewInt(0), big.NewInt(2)},
		"id=q":         {big.NewInt(1), new(big.Int).Set(q), big.NewInt(2)},
		"id=2q":        {two, big.NewInt(1), big.NewInt(2)},
		"dup":          {big.NewInt(3), big.NewInt(4), big.NewInt(3)},
		"i and i+q":    {big.NewInt(5), big.NewInt(6), new(big.Int).Add(q, big.NewInt(5))},
		"i and i+2q":   {big.NewInt(5), new(big.Int).Add(two, big.NewInt(5)), big.NewInt(7)},
		"q-1 and 2q-1": {new(big.Int).Sub(q, big1), new(big.Int).Sub(two, big1), big.NewInt(7)},
	}
	for what, ids := range bad {
		var err error
		if p, msg, _ := guard(func() { _, _, err = vss.Create(ec, 1, big.NewInt(42), ids, rand.Reader) }); p {
			r.Fail("create-panic:"+what, "Create panicked on ids (%s): %s", what, msg)
			continue
		}
		if err == nil {
			r.Fail("create-accepts:"+what, "Create accepted inadmissible ids (%s) on %s", what, curve)
		}
		if _, err2 := vss.CheckIndexes(ec, ids); err2 == nil {
			r.Fail("checkindexes-accepts:"+what, "CheckIndexes accepted inadmissible ids (%s)", what)
		}
		r.Count("dealing_refused", 1)
	}
	// admissible ids must be accepted
	for _, pat := range []string{"small", "large", "geq", "nearq", "seeded"} {
		ids := c15Ids(pat, 4, q, nil, seed, "adm"+pat)
		if _, err := vss.CheckIndexes(ec, ids); err != nil {
			r.Fail("checkindexes-refuses:"+pat, "CheckIndexes refused admissible ids (%s): %v", pat, err)
		}
	}
	if _, _, err := vss.Create(ec, 0, big.NewInt(42), []*big.Int{big1, big2}, rand.Reader); err == nil {
		r.Fail("create-accepts:t=0", "Create accepted threshold 0")
	}
	r.NonTrivial = true
	r.Sample = map[string]any{"case": "refuse/" + curve, "id_sets": []string{"id=0", "id=q", "id=2q", "dup", "i and i+q", "i and i+2q", "q-1 and 2q-1"}}
}
