package checks

import (
	"context"
	"crypto/rand"
	"crypto/sha512"
	"fmt"
	"math/big"
	"sort"
	"strings"
	"time"

	"github.com/bnb-chain/tss-lib/v2/common"
	"github.com/bnb-chain/tss-lib/v2/crypto"
	"github.com/bnb-chain/tss-lib/v2/crypto/commitments"
	"github.com/bnb-chain/tss-lib/v2/crypto/paillier"
	"github.com/bnb-chain/tss-lib/v2/crypto/schnorr"
	"github.com/bnb-chain/tss-lib/v2/crypto/vss"
	ecdsakeygen "github.com/bnb-chain/tss-lib/v2/ecdsa/keygen"
	eddsakeygen "github.com/bnb-chain/tss-lib/v2/eddsa/keygen"
	eddsasigning "github.com/bnb-chain/tss-lib/v2/eddsa/signing"
	"github.com/bnb-chain/tss-lib/v2/tss"

	"verif/core"
	"verif/ref"
	"verif/sim"
)

// C05 — a misbehaving peer cannot cause a bad output and is the one blamed.

func init() {
	core.Register(&core.Check{
		ID:    "C05",
		Level: "fault_enumeration",
		Rule: "one deviating party per run (position lowest/middle/highest index), honest parties run unmodified code. Fault catalogue: for every protocol, every message type, every field (each proof component separately; repeated parts at first/last/seeded indices in quick, every index up to 13 + 12 seeded in thorough) x {+1, seeded random value of the same length, the value from a peer's corresponding message, field removed}; " +
			"whole-message mirror for every message type; wrong secret input; duplicated ring-Pedersen parameters. Oracle: honest outputs valid and in agreement; every honest error names a subset of {deviator} (or the reporter itself / nobody); for fields covered by a commitment, share check or ZK proof at least one honest recipient reports an error, names exactly the deviator, and no honest recipient emits a result; " +
			"in resharing, if an honest old share was erased then every honest new member emitted valid key data. Quick rotates one alteration kind and one position per field by VERIF_SEED; thorough runs the cross product. Class = (protocol, message.field[index class], alteration, position); non-trivial when the fault was actually applied and an honest party consumed it.",
		Assumptions:       []string{"a case that crashes an honest party is C06's verdict and is counted here as inconclusive", "broadcasts are altered identically for all recipients (reliable broadcast assumed by the library)"},
		Gen:               c05Gen,
		Run:               c05Run,
		MinEvents:         []string{"faults_applied", "honest_errors_checked", "honest_outputs_checked"},
		CrashInconclusive: true,
	})
}

func faultSessions(tier string) []sessCfg {
	return []sessCfg{
		{"eddsa-keygen", 3, 1, nil, 0, 0, "small", 0.5},
		{"eddsa-signing", 3, 1, []int{0, 1, 2}, 0, 0, "seeded", 0.4},
		{"eddsa-resharing", 3, 1, []int{0, 1}, 3, 1, "seeded", 0.6},
		{"ecdsa-keygen", 3, 1, nil, 0, 0, "small", 6},
		{"ecdsa-signing", 5, 2, []int{0, 2, 4}, 0, 0, "vendored", 1.2},
		{"ecdsa-resharing", 5, 2, []int{0, 1, 3}, 3, 1, "vendored", 7},
	}
}

// smallFaultSessions: the smallest committees (two parties on each side). Every "all the others" list has one entry here,
// which is where capacity, index and address-list slips show; they get a reduced fault list.
func smallFaultSessions() []sessCfg {
	return []sessCfg{
		{"eddsa-keygen", 2, 1, nil, 0, 0, "small", 0.4},
		{"eddsa-signing", 3, 1, []int{0, 2}, 0, 0, "seeded", 0.3},
		{"eddsa-resharing", 3, 1, []int{0, 1}, 2, 1, "seeded", 0.5},
		{"ecdsa-keygen", 2, 1, nil, 0, 0, "small", 4},
		{"ecdsa-signing", 3, 1, []int{0, 2}, 0, 0, "seeded", 0.8},
		{"ecdsa-resharing", 3, 1, []int{0, 2}, 2, 1, "seeded", 5},
	}
}

func indexChoices(fi fieldInfo, tier string) []string {
	if !fi.Repeated {
		return []string{""}
	}
	if tier != "thorough" {
		if fi.Len <= 3 {
			return []string{"first", "last"}
		}
		return []string{"first", "last", "s0"}
	}
	var out []string
	if fi.Len <= 13 {
		for i := 0; i < fi.Len; i++ {
			out = append(out, fmt.Sprint(i))
		}
		return out
	}
	out = []string{"first", "last"}
	for i := 0; i < 12; i++ {
		out = append(out, fmt.Sprintf("s%d", i))
	}
	return out
}

func c05Gen(tier string, seed int64) []core.Case {
	var cs []core.Case
	kinds := []string{"+1", "random", "donor", "remove"}
	poss := []string{"low", "mid", "high"}
	k := int(seed % 97)
	for _, sc := range faultSessions(tier) {
		add := func(f faultSpec, kind string) {
			p := f.P(sc.P())
			id := fmt.Sprintf("%s/%s", sc.proto, f.String())
			cs = append(cs, core.Case{ID: id, Class: id, Kind: kind, P: p, Cost: sc.cost})
		}
		for _, fi := range staticFields[sc.proto] {
			for _, ix := range indexChoices(fi, tier) {
				if tier == "thorough" {
					for _, how := range kinds {
						for _, pos := range poss {
							add(faultSpec{fi.Type, fi.Field, ix, how, pos, false, ""}, "field")
						}
					}
				} else {
					add(faultSpec{fi.Type, fi.Field, ix, kinds[k%len(kinds)], poss[(k/4)%len(poss)], false, ""}, "field")
					k++
				}
			}
		}
		// point-to-point types: the copy for ONE recipient altered, everybody else gets the genuine message
		for _, fi := range staticFields[sc.proto] {
			sp := sim.SpecOf(sc.proto, fi.Type)
			if sp == nil || sp.Bcast {
				continue
			}
			victims := []string{"other-index", "last"}
			if sp.From != sp.To {
				victims = append(victims, "same-index")
			}
			for vi, v := range victims {
				for pi, pos := range poss {
					if tier != "thorough" && pi != (k+vi)%3 {
						continue
					}
					for _, ix := range indexChoices(fi, tier)[:1] {
						add(faultSpec{fi.Type, fi.Field, ix, []string{"+1", "donor"}[(k+vi)%2], pos, true, v}, "field")
					}
				}
			}
			k++
		}
		{
			// control: the same engine with no fault - every honest party must finish and the outputs pass the oracle
			p := sc.P()
			id := fmt.Sprintf("%s/control-no-fault", sc.proto)
			cs = append(cs, core.Case{ID: id, Class: id, Kind: "control", P: p, Cost: sc.cost})
		}
		for _, sp := range sim.Specs[sc.proto] {
			hasContent := false
			for _, fi := range staticFields[sc.proto] {
				if fi.Type == sp.Short {
					hasContent = true
				}
			}
			if !hasContent {
				continue // the ACK messages carry nothing: a mirrored ACK is byte-identical to an honest one
			}
			add(faultSpec{sp.Short, "*", "", "mirror", poss[k%3], false, ""}, "mirror")
			k++
		}
		if sc.proto == "ecdsa-keygen" || sc.proto == "ecdsa-resharing" {
			for wi, weak := range []string{"dup-of-peer", "crossed-dup-of-peer", "h1=h2", "small-paillier", "small-ntilde", "large-ntilde", "large-paillier"} {
				pos := poss[(k+wi)%3]
				p := sc.P()
				p["fpos"], p["weak"] = pos, weak
				id := fmt.Sprintf("%s/weak-params:%s@%s", sc.proto, weak, pos)
				cs = append(cs, core.Case{ID: id, Class: id, Kind: "weak", P: p, Cost: sc.cost + 6})
			}
		}
		if sc.proto == "ecdsa-keygen" || sc.proto == "ecdsa-resharing" {
			// the two optional-proof switches are independent: with only one of them set the other proof stays mandatory
			for fl, field := range map[string]string{"nomod": "fac", "nofac": "mod"} {
				for _, fi := range staticFields[sc.proto] {
					if !strings.HasPrefix(strings.ToLower(fi.Field), field) || !fi.Repeated {
						continue
					}
					f := faultSpec{fi.Type, fi.Field, "", "list-empty", poss[k%3], false, ""}
					p := f.P(sc.P())
					p["flags"] = fl
					id := fmt.Sprintf("%s/flags=%s/%s", sc.proto, fl, f.String())
					cs = append(cs, core.Case{ID: id, Class: id, Kind: "field", P: p, Cost: sc.cost})
				}
			}
			// the switch lets a party tolerate an ABSENT proof (peers running an older version); a proof that is present
			// is still verified: a present but altered proof of the switched-off kind must be refused as usual
			// (a mixed deployment on the smallest committee: the party with index 1 has the switch set, the deviator, index 0,
			// has not and sends a real proof with one component altered)
			for _, sm := range smallFaultSessions() {
				if sm.proto != sc.proto {
					continue
				}
				for fl, field := range map[string]string{"nomod-at-1": "mod", "nofac-at-1": "fac"} {
					for _, fi := range staticFields[sc.proto] {
						if !strings.HasPrefix(strings.ToLower(fi.Field), field) || !fi.Repeated {
							continue
						}
						f := faultSpec{fi.Type, fi.Field, "first", "+1", "low", false, ""}
						p := f.P(sm.P())
						p["flags"] = fl
						id := fmt.Sprintf("%s/flags=%s/present-but-altered/%s", sc.proto, fl, f.String())
						cs = append(cs, core.Case{ID: id, Class: id, Kind: "field", P: p, Cost: sm.cost})
					}
				}
			}
		}
		if strings.HasSuffix(sc.proto, "signing") || strings.HasSuffix(sc.proto, "resharing") {
			for _, pos := range poss {
				if tier != "thorough" && pos != poss[k%3] {
					continue
				}
				p := sc.P()
				p["fpos"] = pos
				id := fmt.Sprintf("%s/wrong-secret@%s", sc.proto, pos)
				cs = append(cs, core.Case{ID: id, Class: id, Kind: "wrong-secret", P: p, Cost: sc.cost})
			}
			k++
		}
	}
	// full replay: the deviator replays, for every message type, what one other participant sends (commitment, opening and
	// proof together). Also in a committee of 257 signers, where the deviator's index and the copied party's index differ by 256.
	for _, sc := range append(faultSessions(tier), sessCfg{"eddsa-signing", 257, 1, seqInts(257), 0, 0, "dealt", 4}, sessCfg{"eddsa-keygen", 257, 1, nil, 0, 0, "small", 6}) {
		if !strings.HasSuffix(sc.proto, "signing") && !strings.HasSuffix(sc.proto, "keygen") {
			continue
		}
		p := sc.P()
		p["fpos"] = "high"
		id := fmt.Sprintf("%s/n=%d/replay-everything-of-the-first-party@high", sc.proto, sc.n)
		cs = append(cs, core.Case{ID: id, Class: id, Kind: "replay-all", P: p, Cost: sc.cost})
	}
	// a dealer whose Feldman commitments carry a small-order component (edwards25519 has cofactor 8): commitment, opening,
	// shares and a ground Schnorr proof are all consistent with the torsioned points, and the torsion cancels in the
	// Feldman check of every honest receiver (ids 1 and 3, dealer id 2)
	{
		sc := sessCfg{"eddsa-keygen", 3, 1, nil, 0, 0, "small", 0.6}
		id := "eddsa-keygen/dealer-with-small-order-components-in-its-commitments@mid"
		cs = append(cs, core.Case{ID: id, Class: id, Kind: "torsion-dealer", P: sc.P(), Cost: 1})
	}
	// EdDSA points sent as a pair of scalar fields (the commitment of a Schnorr proof): shifted by the point of order 2
	for _, sc := range faultSessions(tier) {
		if !strings.HasPrefix(sc.proto, "eddsa") {
			continue
		}
		for _, fi := range staticFields[sc.proto] {
			if fi.Repeated || !strings.HasSuffix(fi.Field, "_x") {
				continue
			}
			add := faultSpec{fi.Type, fi.Field, "", "torsion2", poss[k%3], false, ""}
			id := fmt.Sprintf("%s/%s", sc.proto, add.String())
			cs = append(cs, core.Case{ID: id, Class: id, Kind: "field", P: add.P(sc.P()), Cost: sc.cost})
			k++
		}
	}
	// slow starters: every honest party's Start is held back as long as anything else can happen, so the last one to start
	// has the whole first round (with the altered message) in its store and meets the fault in the catch-up loop of
	// Start rather than in an update
	for _, sc := range faultSessions(tier) {
		seenType := map[string]bool{}
		for _, fi := range staticFields[sc.proto] {
			sp := sim.SpecOf(sc.proto, fi.Type)
			if sp == nil || sp.Round != 1 || (seenType[fi.Type+"."+fi.Field] && tier != "thorough") {
				continue
			}
			seenType[fi.Type+"."+fi.Field] = true
			ix := ""
			if fi.Repeated {
				ix = "first"
			}
			f := faultSpec{fi.Type, fi.Field, ix, []string{"+1", "random"}[k%2], poss[k%3], false, ""}
			p := f.P(sc.P())
			p["sched"] = "slow-starters"
			id := fmt.Sprintf("%s/slow-starters/%s", sc.proto, f.String())
			cs = append(cs, core.Case{ID: id, Class: id, Kind: "field", P: p, Cost: sc.cost})
			if !sp.Bcast {
				// only the copy for the last starter is altered: the other honest parties go on and their later messages
				// reach a party whose Start has returned an error
				f1 := faultSpec{fi.Type, fi.Field, ix, "+1", "low", true, "last"}
				p1 := f1.P(sc.P())
				p1["sched"] = "slow-starters"
				id1 := fmt.Sprintf("%s/slow-starters/%s", sc.proto, f1.String())
				cs = append(cs, core.Case{ID: id1, Class: id1, Kind: "field", P: p1, Cost: sc.cost})
			}
			k++
		}
	}
	// equivocation over time: after an honest party has moved on to a later round, the deviator sends it an earlier-round
	// message once more with one field altered (stores are keyed by sender and type, so the copy overwrites the original)
	for _, sc := range faultSessions(tier) {
		seenType := map[string]bool{}
		for _, fi := range staticFields[sc.proto] {
			if seenType[fi.Type] && tier != "thorough" {
				continue
			}
			if sp := sim.SpecOf(sc.proto, fi.Type); sp == nil || sp.Round >= sim.FinalRound[sc.proto]-1 {
				continue // messages of the last message round: no later round in which a copy could arrive
			}
			seenType[fi.Type] = true
			ix := ""
			if fi.Repeated {
				ix = "first"
			}
			f := faultSpec{fi.Type, fi.Field, ix, "+1", poss[k%3], false, ""}
			id := fmt.Sprintf("%s/late-altered-resend/%s", sc.proto, f.String())
			cs = append(cs, core.Case{ID: id, Class: id, Kind: "late-resend", P: f.P(sc.P()), Cost: sc.cost})
			k++
		}
	}
	{
		// the same for a signer's nonce commitment R_j in EdDSA signing (all three holders of a (3,1) key sign)
		sc := sessCfg{"eddsa-signing", 3, 1, []int{0, 1, 2}, 0, 0, "seeded", 0.5}
		id := "eddsa-signing/signer-with-a-small-order-component-in-its-nonce-point@mid"
		cs = append(cs, core.Case{ID: id, Class: id, Kind: "torsion-signer", P: sc.P(), Cost: 1})
		// the variant the receivers can repair: the proof is the honest one for the prime-order part R, and the signer's
		// round-3 share is computed for R as well. After cofactor clearing everything is consistent: the session must
		// either finish with a valid signature or blame exactly the deviating signer
		id2 := "eddsa-signing/signer-with-a-small-order-component-and-an-honest-proof@mid"
		p2 := sc.P()
		p2["honestproof"] = true
		cs = append(cs, core.Case{ID: id2, Class: id2, Kind: "torsion-signer", P: p2, Cost: 1})
	}
	for _, sc := range smallFaultSessions() {
		for fiI, fi := range staticFields[sc.proto] {
			ix := ""
			if fi.Repeated {
				ix = "first"
			}
			hows := []string{"+1"}
			if tier == "thorough" {
				hows = []string{"+1", "random", "remove"}
			}
			for _, how := range hows {
				f := faultSpec{fi.Type, fi.Field, ix, how, []string{"low", "high"}[(k+fiI)%2], false, ""}
				id := fmt.Sprintf("small/%s/%s", sc.proto, f.String())
				cs = append(cs, core.Case{ID: id, Class: id, Kind: "field", P: f.P(sc.P()), Cost: sc.cost})
			}
		}
		id := fmt.Sprintf("small/%s/control-no-fault", sc.proto)
		cs = append(cs, core.Case{ID: id, Class: id, Kind: "control", P: sc.P(), Cost: sc.cost})
	}
	return cs
}

// culpritSet returns the node names an error blames.
func culpritNamesOf(w *sim.World, reporter *sim.Node, errIdx int) []string {
	return culpritNamesOfErr(w, reporter.Errors[errIdx])
}

func culpritNamesOfErr(w *sim.World, e *tss.Error) []string {
	var out []string
	for _, c := range e.Culprits() {
		found := "?"
		if c != nil {
			for _, n := range w.Nodes {
				if n.PID == c || (n.PID.KeyInt().Cmp(c.KeyInt()) == 0 && (!sim.IsResharing(w.Proto) || n.PID.Id == c.Id)) {
					found = n.Name
				}
			}
		}
		dup := false
		for _, o := range out {
			if o == found {
				dup = true // the same party reported by several verification goroutines is still one culprit
			}
		}
		if !dup {
			out = append(out, found)
		}
	}
	sort.Strings(out)
	return out
}

func c05Run(c core.Case, env *core.Env) core.Result {
	r := res(c)
	s, err := sessionFromP(env, c.P)
	if err != nil {
		r.Inconcl("session setup failed: %v", err)
		return r
	}
	f := faultFromP(c.P)
	switch c.P.Str("flags") {
	case "nomod":
		sim.ParamHook = func(p *tss.Parameters) { p.SetNoProofMod() }
	case "nofac":
		sim.ParamHook = func(p *tss.Parameters) { p.SetNoProofFac() }
	case "nomod-at-1":
		sim.ParamHook = func(p *tss.Parameters) {
			if p.PartyID().Index == 1 {
				p.SetNoProofMod()
			}
		}
	case "nofac-at-1":
		sim.ParamHook = func(p *tss.Parameters) {
			if p.PartyID().Index == 1 {
				p.SetNoProofFac()
			}
		}
	}
	defer func() { sim.ParamHook = nil }()
	var fr *faultRun
	if c.Kind == "control" {
		w, in, err := s.make(env.Seed)
		if err != nil {
			r.Inconcl("cannot build: %v", err)
			return r
		}
		w.Run(sim.StartsThen(sim.FIFO), nil)
		s.outcome(&r, w, in, "c05:control")
		r.Count("honest_outputs_checked", int64(len(w.Nodes)))
		r.NonTrivial = true
		return r
	}
	switch c.Kind {
	case "weak":
		fr, err = runWeakParams(s, c.P.Str("fpos"), c.P.Str("weak"))
		f = faultSpec{Type: "(pre-parameters)", Field: c.P.Str("weak"), How: "weak-params", Pos: c.P.Str("fpos")}
	case "late-resend":
		fr, err = runLateResend(s, f)
		f.How = "late-resend"
	case "torsion-signer":
		fr, err = runTorsionSigner(s, c.P.Bool("honestproof"))
		f = faultSpec{Type: "(crafted nonce point)", Field: "*", How: "torsion-dealer", Pos: "mid"}
		if c.P.Bool("honestproof") {
			f.How = "torsion-cleared"
		}
	case "torsion-dealer":
		fr, err = runTorsionDealer(s)
		f = faultSpec{Type: "(crafted dealing)", Field: "*", How: "torsion-dealer", Pos: "mid"}
	case "replay-all":
		fr, err = runReplayAll(s, c.P.Str("fpos"))
		f = faultSpec{Type: "(every type)", Field: "*", How: "replay-all", Pos: c.P.Str("fpos")}
	case "wrong-secret":
		fr, err = runWrongSecret(s, c.P.Str("fpos"))
		f = faultSpec{Type: "(input)", Field: "Xi", How: "wrong-secret", Pos: c.P.Str("fpos")}
	default:
		sched := c.P.Str("sched")
		if sched == "" {
			sched = "fifo"
		}
		fr, err = runFault(s, f, sched)
	}
	if err != nil {
		r.Inconcl("cannot run: %v", err)
		return r
	}
	c05Oracle(&r, fr, f)
	if r.Verdict == core.Violated {
		r.Witness = strings.Join(fr.w.Trace(300), "\n")
	}
	if f.How == "donor" && r.Sample == nil {
		r.Sample = map[string]any{"case": c.ID, "deviator": fr.dev.Name, "applied": fr.applied, "steps": len(fr.w.Steps), "honest_errors": r.Obs["honest_errors_checked"]}
	}
	return r
}

func runWrongSecret(s *session, pos string) (*faultRun, error) {
	w, in, err := s.make(s.env.Seed + 17)
	if err != nil {
		return nil, err
	}
	role := "all"
	if sim.IsResharing(s.Proto) {
		role = "old"
	}
	fr := &faultRun{w: w, in: in, s: s}
	fr.dev = pickDeviator(w, role, pos)
	fr.dev.Deviator = true
	for i, v := range in.Views() {
		if v.ShareID.Cmp(fr.dev.PID.KeyInt()) == 0 {
			in.Xi(i).Add(in.Xi(i), big1) // the party objects read the share at Start: changing it now is "constructed with Xi+1"
			fr.applied++
		}
	}
	w.Run(sim.StartsThen(sim.FIFO), nil)
	return fr, nil
}

func c05Oracle(r *core.Result, fr *faultRun, f faultSpec) {
	w, s, D := fr.w, fr.s, fr.dev
	if fr.applied == 0 {
		r.Inconcl("the fault %s could not be applied in this run (field absent or donor value identical)", f)
		return
	}
	r.Count("faults_applied", 1)
	// parameter sizes and duplicates are validated by plain comparisons, not by a commitment, share check or proof
	covered := !uncoveredFields[s.Proto+"/"+f.Type+"."+f.Field] && f.How != "weak-params"
	if f.How == "late-resend" {
		covered = false // an honest party may ignore a message for a round it has left; what it must not do is produce a bad output or blame a peer
	}
	if f.How == "wrong-secret" {
		// a signer's share is tied to its public share by Bob's proof "with check" in ECDSA signing; EdDSA signing and
		// the re-sharing dealers have no per-party proof of the share (the failure shows in the final check only)
		covered = s.Proto == "ecdsa-signing"
	}
	if f.How == "mirror" {
		// a mirrored message is covered if the type has at least one covered field
		covered = false
		for _, fi := range staticFields[s.Proto] {
			if fi.Type == f.Type && !uncoveredFields[s.Proto+"/"+fi.Type+"."+fi.Field] {
				covered = true
			}
		}
	}
	sp := sim.SpecOf(s.Proto, f.Type)
	sigBase := fmt.Sprintf("%s/%s.%s/%s", s.Proto, f.Type, f.Field, f.How)
	// (b) culprit discipline
	errCount := 0
	exact := 0
	var notExact [][2]string
	for _, n := range w.Nodes {
		if n == D {
			continue
		}
		// an error returned by Start (a slow starter that catches up on messages delivered before its Start) counts like
		// one returned by an update
		all := append([]*tss.Error{}, n.Errors...)
		if n.StartErr != nil {
			all = append(all, n.StartErr)
		}
		for _, e := range all {
			errCount++
			r.Count("honest_errors_checked", 1)
			names := culpritNamesOfErr(w, e)
			ok := true
			for _, nm := range names {
				if nm != D.Name && nm != n.Name {
					ok = false
				}
			}
			site := fmt.Sprintf("%s/r%d:%s", s.Proto, e.Round(), core.SigClean(causeText(e.Cause())))
			if !ok {
				r.Fail("blame:honest-party:"+site, "%s reports an error that blames %v; the deviating party is %s (fault %s; error: %s)", n.Name, names, D.Name, f, core.Clip(e.Error(), 200))
			}
			if len(names) == 1 && names[0] == D.Name {
				exact++
			} else if covered && ok {
				notExact = append(notExact, [2]string{"blame:not-exact:" + site, fmt.Sprintf("%s reports an error about a covered value but names %v instead of exactly %s (fault %s; error: %s)", n.Name, names, D.Name, f, core.Clip(e.Error(), 200))})
			}
			r.AddSet("abort_sites", fmt.Sprintf("%s r%d %s", e.Task(), e.Round(), core.SigClean(causeText(e.Cause()))))
		}
	}
	// blaming an honest party is the graver finding and names the run; inexact blame (nobody / the reporter itself for a covered value) comes second
	for _, ne := range notExact {
		r.Fail(ne[0], "%s", ne[1])
	}
	// (a) honest outputs
	var honestViews []*keyView
	var honestIdx []int
	recipientsEnded := 0
	groupIdx := map[string]int{}
	for _, n := range w.Nodes {
		gi := groupIdx[n.Group]
		groupIdx[n.Group]++
		if n == D || len(n.Ended) == 0 {
			continue
		}
		if sp != nil && (sp.To == "all" || sp.To == "old+new" || sp.To == n.Group) && (!f.One || n == fr.victim) {
			recipientsEnded++
		}
		if len(n.Ended) > 1 {
			r.Fail("output:twice:"+sigBase, "%s emitted %d results", n.Name, len(n.Ended))
		}
		vs, _ := viewsOf(&sim.World{Nodes: []*sim.Node{n}}, "")
		if len(vs) == 1 && (!sim.IsResharing(s.Proto) || n.Group == "new") {
			honestViews = append(honestViews, vs[0])
			honestIdx = append(honestIdx, gi)
		}
	}
	switch {
	case strings.HasSuffix(s.Proto, "keygen"):
		honestKeyAgreement(r, s.curve(), s.T, honestViews, honestIdx, nil, "output:"+sigBase)
	case strings.HasSuffix(s.Proto, "resharing"):
		honestKeyAgreement(r, s.curve(), s.NT, honestViews, honestIdx, &s.pub, "output:"+sigBase)
	default:
		var outs []*common.SignatureData
		for _, n := range w.Nodes {
			if n != D && len(n.Ended) > 0 {
				if sd, ok := n.Ended[0].(*common.SignatureData); ok {
					outs = append(outs, sd)
				}
			}
		}
		before := r.Verdict
		if isEd(s.curve()) {
			eddsaSigOracle(r, s.pub, s.Msg, 0, outs)
		} else {
			ecdsaSigOracle(r, s.pub, s.Msg, 0, outs)
		}
		if r.Verdict == core.Violated && before != core.Violated {
			r.Sig = "output:bad-signature:" + sigBase
		}
		r.Count("honest_outputs_checked", int64(len(outs)))
	}
	// (c) covered values must be noticed by a recipient, and no recipient may go on to a result
	if covered && sp != nil {
		if errCount == 0 {
			r.Fail("unnoticed:"+sigBase, "%s altered %s (covered by a commitment, share check or proof) and no honest party reported an error; %d honest recipient(s) finished", D.Name, f, recipientsEnded)
		} else if exact == 0 {
			r.Fail("blame:nobody-names-deviator:"+sigBase, "errors were reported but none names exactly %s", D.Name)
		}
		if recipientsEnded > 0 && f.How != "mirror" {
			r.Fail("accepted:"+sigBase, "%d honest recipient(s) of the altered %s finished with a result", recipientsEnded, f.Type)
		}
	}
	// a participant that replays everything another participant sends (commitment, opening and identity-bound proof
	// together) must be noticed by the parties that check the proofs
	if f.How == "torsion-dealer" && errCount == 0 {
		r.Fail("unnoticed:torsion-dealer:"+s.Proto, "%s dealt commitments with a small-order component (with a matching opening and Schnorr proof) and no honest party reported an error", D.Name)
	}
	if f.How == "replay-all" && errCount == 0 {
		r.Fail("unnoticed:replay-all:"+s.Proto, "%s replayed every message of another participant as its own and no honest party reported an error", D.Name)
	}
	// (d) resharing: a single deviating participant cannot make the honest ones lose the key
	if sim.IsResharing(s.Proto) && fr.in != nil {
		erased := 0
		for i, v := range fr.in.Views() {
			if v.ShareID.Cmp(D.PID.KeyInt()) == 0 && D.Group == "old" {
				continue
			}
			if fr.in.Xi(i).Sign() == 0 {
				erased++
			}
		}
		if erased > 0 {
			for _, n := range w.Nodes {
				if n.Group == "new" && n != D && len(n.Ended) == 0 {
					r.Fail("keyloss:"+s.Proto+"/"+f.Type, "%d honest old member(s) erased their share but honest new member %s never emitted key data: the key is lost (errors: %v)", erased, n.Name, core.Clip(strings.Join(errorsOf(w), " | "), 300))
					break
				}
			}
			r.Count("erasures_observed", 1)
		}
	}
	if f.How == "weak-params" && strings.Contains(f.Field, "dup-of-peer") && errCount == 0 {
		// ring-Pedersen parameters and their DLN proofs carry no session or prover identity: the uniqueness check is all
		// that stops a participant from presenting another participant's proofs as its own
		r.Fail("unnoticed:weak-params:"+f.Field+":"+s.Proto, "%s presented another participant's ring-Pedersen parameters and DLN proofs (%s) as its own and no honest party reported an error", D.Name, f.Field)
	}
	if f.How == "weak-params" {
		if errCount > 0 {
			r.AddSet("weak_params_rejected", s.Proto+":"+f.Field)
		} else {
			r.AddSet("weak_params_accepted_consistently", s.Proto+":"+f.Field)
		}
	}
	r.NonTrivial = true
}

func causeText(e error) string {
	if e == nil {
		return ""
	}
	return e.Error()
}

// weakPreParams builds the pre-parameters a deviating party brings.
func weakPreParams(kind string, base, peer ecdsakeygen.LocalPreParams) (ecdsakeygen.LocalPreParams, error) {
	cp := base
	ctx, cancel := context.WithTimeout(context.Background(), 15*time.Minute)
	defer cancel()
	switch kind {
	case "dup-of-peer":
		return peer, nil
	case "crossed-dup-of-peer":
		// the peer's ring-Pedersen parameters with the roles of h1 and h2 exchanged (and the two discrete logs with them):
		// both DLN proofs are then valid statements about values the peer already uses
		cp.NTildei, cp.P, cp.Q = peer.NTildei, peer.P, peer.Q
		cp.H1i, cp.H2i = peer.H2i, peer.H1i
		cp.Alpha, cp.Beta = peer.Beta, peer.Alpha
		return cp, nil
	case "h1=h2":
		cp.H2i = new(big.Int).Set(cp.H1i)
		cp.Alpha, cp.Beta = big.NewInt(1), big.NewInt(1)
		return cp, nil
	case "small-paillier":
		sk, _, err := paillier.GenerateKeyPair(ctx, rand.Reader, 1024, 8)
		if err != nil {
			return cp, err
		}
		cp.PaillierSK = sk
		return cp, nil
	case "large-ntilde", "large-paillier":
		// 2304-bit moduli (the protocol's are 2048-bit) from ordinary primes congruent to 3 mod 4, with everything the
		// honest prover needs to produce valid proofs for them
		var ps [2]*big.Int
		for i := range ps {
			for {
				c, err := rand.Prime(rand.Reader, 1152)
				if err != nil {
					return cp, err
				}
				if c.Bit(1) == 1 {
					ps[i] = c
					break
				}
			}
		}
		N := new(big.Int).Mul(ps[0], ps[1])
		pm, qm := new(big.Int).Sub(ps[0], big1), new(big.Int).Sub(ps[1], big1)
		if kind == "large-paillier" {
			phi := new(big.Int).Mul(pm, qm)
			lam := new(big.Int).Div(phi, new(big.Int).GCD(nil, nil, pm, qm))
			cp.PaillierSK = &paillier.PrivateKey{PublicKey: paillier.PublicKey{N: N}, LambdaN: lam, PhiN: phi, P: ps[0], Q: ps[1]}
			return cp, nil
		}
		p, q := new(big.Int).Rsh(pm, 1), new(big.Int).Rsh(qm, 1)
		pq := new(big.Int).Mul(p, q)
		f := common.GetRandomPositiveRelativelyPrimeInt(rand.Reader, N)
		h1 := new(big.Int).Mod(new(big.Int).Mul(f, f), N)
		var alpha, beta *big.Int
		for beta == nil {
			alpha = common.GetRandomPositiveRelativelyPrimeInt(rand.Reader, N)
			beta = new(big.Int).ModInverse(alpha, pq)
		}
		cp.NTildei, cp.H1i, cp.H2i, cp.Alpha, cp.Beta, cp.P, cp.Q = N, h1, new(big.Int).Exp(h1, alpha, N), alpha, beta, p, q
		return cp, nil
	case "small-ntilde":
		sg, err := common.GetRandomSafePrimesConcurrent(ctx, 512, 2, 8, rand.Reader)
		if err != nil {
			return cp, err
		}
		P, Q := sg[0].SafePrime(), sg[1].SafePrime()
		p, q := sg[0].Prime(), sg[1].Prime()
		NT := new(big.Int).Mul(P, Q)
		pq := new(big.Int).Mul(p, q)
		f := common.GetRandomPositiveRelativelyPrimeInt(rand.Reader, NT)
		h1 := new(big.Int).Mod(new(big.Int).Mul(f, f), NT)
		var alpha, beta *big.Int
		for beta == nil {
			alpha = common.GetRandomPositiveRelativelyPrimeInt(rand.Reader, NT)
			beta = new(big.Int).ModInverse(alpha, pq)
		}
		cp.NTildei, cp.H1i, cp.H2i, cp.Alpha, cp.Beta, cp.P, cp.Q = NT, h1, new(big.Int).Exp(h1, alpha, NT), alpha, beta, p, q
		return cp, nil
	}
	return cp, fmt.Errorf("unknown weak-parameter kind %q", kind)
}

func runWeakParams(s *session, pos, kind string) (*faultRun, error) {
	pre, err := PreParams(s.env.Repo)
	if err != nil {
		return nil, err
	}
	// which index does the deviator have? build a throw-away world to resolve the position
	probe, _, err := s.make(s.env.Seed + 23)
	if err != nil {
		return nil, err
	}
	role := "all"
	if sim.IsResharing(s.Proto) {
		role = "new"
	}
	dn := pickDeviator(probe, role, pos)
	idx := 0
	for _, n := range probe.Nodes {
		if n == dn {
			break
		}
		if role == "all" || n.Group == role {
			idx++
		}
	}
	peer := (idx + 1) % s.curveCount(role, probe)
	// the sets actually handed out by the builders: keygen uses pre[i]; resharing rotates by the seed
	base, peerSet := pre[idx%len(pre)], pre[peer%len(pre)]
	if sim.IsResharing(s.Proto) {
		rot := int((s.env.Seed+23)%5+5) % 5
		base, peerSet = pre[(idx+rot)%5], pre[(peer+rot)%5]
	}
	wp, err := weakPreParams(kind, base, peerSet)
	if err != nil {
		return nil, err
	}
	s.preOverride = map[int]ecdsakeygen.LocalPreParams{idx: wp}
	defer func() { s.preOverride = nil }()
	w, in, err := s.make(s.env.Seed + 23)
	if err != nil {
		return nil, err
	}
	fr := &faultRun{w: w, in: in, s: s, applied: 1}
	fr.dev = pickDeviator(w, role, pos)
	fr.dev.Deviator = true
	w.Run(sim.StartsThen(sim.FIFO), nil)
	return fr, nil
}

func (s *session) curveCount(role string, w *sim.World) int {
	n := 0
	for _, nd := range w.Nodes {
		if role == "all" || nd.Group == role {
			n++
		}
	}
	return n
}

func seqInts(n int) []int {
	out := make([]int, n)
	for i := range out {
		out[i] = i
	}
	return out
}

// runReplayAll: the deviator sends, for every message type, the bytes the first other participant sent for that type (to
// the same recipient for point-to-point types), under its own sender identity.
func runReplayAll(s *session, pos string) (*faultRun, error) {
	w, in, err := s.make(s.env.Seed + 29)
	if err != nil {
		return nil, err
	}
	fr := &faultRun{w: w, in: in, s: s}
	fr.dev = pickDeviator(w, "all", pos)
	fr.dev.Deviator = true
	var donor *sim.Node
	for _, n := range w.Nodes {
		if n != fr.dev {
			donor = n
			break
		}
	}
	find := func(m *sim.Msg, to *sim.Node) *sim.Msg {
		var any *sim.Msg
		for _, o := range w.Msgs {
			if o.From != donor || o.Short != m.Short {
				continue
			}
			if any == nil {
				any = o
			}
			for _, rc := range o.Recips {
				if rc == to {
					return o
				}
			}
		}
		return any
	}
	// In a very large committee every party that reaches the proof-checking round verifies one proof per peer (seconds of
	// curve arithmetic each): only a few observed parties receive the messages of round 2 and later, the others are slow.
	observed := map[*sim.Node]bool{}
	if len(w.Nodes) > 32 {
		for _, n := range w.Nodes {
			if n != fr.dev && n != donor && len(observed) < 3 {
				observed[n] = true
			}
		}
	}
	w.Hold = func(w *sim.World, m *sim.Msg) bool { return m.From == fr.dev && find(m, nil) == nil }
	w.Rewrite = func(w *sim.World, m *sim.Msg, to *sim.Node) ([]byte, bool, *tss.PartyID, bool) {
		if len(observed) > 0 && !observed[to] {
			if sp := sim.SpecOf(w.Proto, m.Short); sp != nil && sp.Round >= 2 {
				return nil, false, nil, true
			}
		}
		if m.From != fr.dev {
			return m.Wire, m.Bcast, m.From.PID, false
		}
		if to == donor && !m.Bcast {
			// the donor has no message to itself; it gets the deviator's genuine one
			return m.Wire, m.Bcast, m.From.PID, false
		}
		if d := find(m, to); d != nil {
			fr.applied++
			return d.Wire, m.Bcast, m.From.PID, false
		}
		return m.Wire, m.Bcast, m.From.PID, false
	}
	w.Run(sim.StartsThen(sim.FIFO), nil)
	return fr, nil
}

// runTorsionDealer: EdDSA keygen, ids 1,2,3, t=1, the dealer with id 2 deviates. Its messages are replaced by a dealing
// made in the harness: honest polynomial and shares, every commitment V_k shifted by the point of order 2 (0,-1); the hash
// commitment, its opening and the Schnorr proof (re-drawn until it verifies for the shifted V_0) are consistent with the
// shifted points. For the receivers with ids 1 and 3 the shifts cancel in the Feldman check ((1+id)*T = 0).
func runTorsionDealer(s *session) (*faultRun, error) {
	w, in, err := s.make(s.env.Seed + 31)
	if err != nil {
		return nil, err
	}
	fr := &faultRun{w: w, in: in, s: s}
	fr.dev = pickDeviator(w, "all", "mid")
	fr.dev.Deviator = true
	ec := tss.Edwards()
	q := ec.Params().N
	ids := make([]*big.Int, len(w.Nodes))
	for i, n := range w.Nodes {
		ids[i] = n.PID.KeyInt()
	}
	u := common.GetRandomPositiveInt(rand.Reader, q)
	vs, shares, err := vss.Create(ec, s.T, u, ids, rand.Reader)
	if err != nil {
		return nil, err
	}
	T2, err := crypto.NewECPoint(ec, big.NewInt(0), new(big.Int).Sub(ec.Params().P, big.NewInt(1)))
	if err != nil {
		return nil, err
	}
	shifted := make([]*crypto.ECPoint, len(vs))
	for k := range vs {
		if shifted[k], err = vs[k].Add(T2); err != nil {
			return nil, err
		}
	}
	flat, err := crypto.FlattenECPoints(shifted)
	if err != nil {
		return nil, err
	}
	cmtD := commitments.NewHashCommitment(rand.Reader, flat...)
	ssidList := []*big.Int{ec.Params().P, ec.Params().N, ec.Params().Gx, ec.Params().Gy}
	ssidList = append(ssidList, ids...)
	ssidList = append(ssidList, big.NewInt(1), big.NewInt(0))
	ctx := append(common.SHA512_256i(ssidList...).Bytes(), new(big.Int).SetUint64(uint64(fr.dev.PID.Index)).Bytes()...)
	var pf *schnorr.ZKProof
	for tries := 0; tries < 200; tries++ {
		p, err := schnorr.NewZKProof(ctx, u, shifted[0], rand.Reader)
		if err == nil && p.Verify(ctx, shifted[0]) {
			pf = p
			break
		}
	}
	if pf == nil {
		return nil, fmt.Errorf("could not grind a Schnorr proof for the shifted commitment")
	}
	wireOf := func(m tss.ParsedMessage) []byte {
		b, _, err := m.WireBytes()
		if err != nil {
			return nil
		}
		return b
	}
	r1 := wireOf(eddsakeygen.NewKGRound1Message(fr.dev.PID, cmtD.C))
	r2b := wireOf(eddsakeygen.NewKGRound2Message2(fr.dev.PID, cmtD.D, pf))
	r2p := map[*sim.Node][]byte{}
	for j, n := range w.Nodes {
		r2p[n] = wireOf(eddsakeygen.NewKGRound2Message1(n.PID, fr.dev.PID, shares[j]))
	}
	w.Rewrite = func(w *sim.World, m *sim.Msg, to *sim.Node) ([]byte, bool, *tss.PartyID, bool) {
		if m.From != fr.dev {
			return m.Wire, m.Bcast, m.From.PID, false
		}
		switch m.Short {
		case "KGRound1Message":
			fr.applied++
			return r1, m.Bcast, m.From.PID, false
		case "KGRound2Message1":
			return r2p[to], m.Bcast, m.From.PID, false
		case "KGRound2Message2":
			return r2b, m.Bcast, m.From.PID, false
		}
		return m.Wire, m.Bcast, m.From.PID, false
	}
	w.Run(sim.StartsThen(sim.FIFO), nil)
	return fr, nil
}

// runTorsionSigner: EdDSA signing; the deviating signer commits to R + T (T of order 2), opens it and proves knowledge of
// log R with a proof re-drawn until it verifies for R + T. Its round-3 message stays whatever the real party sends.
func runTorsionSigner(s *session, honestProof bool) (*faultRun, error) {
	w, in, err := s.make(s.env.Seed + 37)
	if err != nil {
		return nil, err
	}
	es, ok := in.(*eddsaSet)
	if !ok {
		return nil, fmt.Errorf("not an EdDSA key set")
	}
	fr := &faultRun{w: w, in: in, s: s}
	fr.dev = pickDeviator(w, "all", "mid")
	fr.dev.Deviator = true
	ec := tss.Edwards()
	q := ec.Params().N
	ids := make([]*big.Int, len(w.Nodes))
	for i, n := range w.Nodes {
		ids[i] = n.PID.KeyInt()
	}
	// BigXj of the signers in the order of the sorted signer ids
	var bigXs []*crypto.ECPoint
	for _, id := range ids {
		for k, ksID := range es.d[0].Ks {
			if ksID.Cmp(id) == 0 {
				bigXs = append(bigXs, es.d[0].BigXj[k])
			}
		}
	}
	flatX, err := crypto.FlattenECPoints(bigXs)
	if err != nil || len(bigXs) != len(ids) {
		return nil, fmt.Errorf("cannot rebuild the session id inputs")
	}
	ssidList := []*big.Int{ec.Params().P, ec.Params().N, ec.Params().Gx, ec.Params().Gy}
	ssidList = append(ssidList, ids...)
	ssidList = append(ssidList, flatX...)
	ssidList = append(ssidList, big.NewInt(1), big.NewInt(0))
	ctx := append(common.SHA512_256i(ssidList...).Bytes(), new(big.Int).SetUint64(uint64(fr.dev.PID.Index)).Bytes()...)
	rr := common.GetRandomPositiveInt(rand.Reader, q)
	T2, err := crypto.NewECPoint(ec, big.NewInt(0), new(big.Int).Sub(ec.Params().P, big.NewInt(1)))
	if err != nil {
		return nil, err
	}
	Rs, err := crypto.ScalarBaseMult(ec, rr).Add(T2)
	if err != nil {
		return nil, err
	}
	cmtR := commitments.NewHashCommitment(rand.Reader, Rs.X(), Rs.Y())
	var pf *schnorr.ZKProof
	Rclean := crypto.ScalarBaseMult(ec, rr)
	for tries := 0; tries < 200 && !honestProof; tries++ {
		p, err := schnorr.NewZKProof(ctx, rr, Rs, rand.Reader)
		if err == nil && p.Verify(ctx, Rs) {
			pf = p
			break
		}
	}
	if honestProof {
		pf, _ = schnorr.NewZKProof(ctx, rr, Rclean, rand.Reader)
	}
	if pf == nil {
		return nil, fmt.Errorf("could not grind a Schnorr proof for the shifted nonce point")
	}
	wireOf := func(m tss.ParsedMessage) []byte {
		b, _, err := m.WireBytes()
		if err != nil {
			return nil
		}
		return b
	}
	r1 := wireOf(eddsasigning.NewSignRound1Message(fr.dev.PID, cmtR.C))
	r2 := wireOf(eddsasigning.NewSignRound2Message(fr.dev.PID, cmtR.D, pf))
	var r3 []byte
	w.Rewrite = func(w *sim.World, m *sim.Msg, to *sim.Node) ([]byte, bool, *tss.PartyID, bool) {
		if m.From != fr.dev {
			return m.Wire, m.Bcast, m.From.PID, false
		}
		switch m.Short {
		case "SignRound1Message":
			fr.applied++
			return r1, m.Bcast, m.From.PID, false
		case "SignRound2Message":
			return r2, m.Bcast, m.From.PID, false
		case "SignRound3Message":
			if !honestProof {
				break
			}
			// s_D = r + h*w_D with h = SHA-512(enc(R) || enc(A) || M) reduced, R the sum of the cleared nonce points
			if r3 == nil {
				agg := refPt(Rclean)
				for _, o := range w.Msgs {
					if o.Short != "SignRound2Message" || o.From == fr.dev {
						continue
					}
					if dc, err := sim.GetField(o.Wire, "de_commitment"); err == nil && len(dc) == 3 {
						agg = ref.EdAdd(agg, ref.Pt{X: new(big.Int).SetBytes(dc[1]), Y: new(big.Int).SetBytes(dc[2])})
					}
				}
				encR, encA := ref.EdEncode(agg), ref.EdEncode(refPt(es.d[0].EDDSAPub))
				hh := sha512.New()
				hh.Write(encR[:])
				hh.Write(encA[:])
				hh.Write(s.Msg.Bytes())
				sum := hh.Sum(nil)
				for i, j := 0, len(sum)-1; i < j; i, j = i+1, j-1 {
					sum[i], sum[j] = sum[j], sum[i]
				}
				hInt := new(big.Int).Mod(new(big.Int).SetBytes(sum), q)
				var xD *big.Int
				for k := range es.d {
					if es.d[k].ShareID.Cmp(fr.dev.PID.KeyInt()) == 0 {
						xD = es.d[k].Xi
					}
				}
				idx := 0
				for i, id := range ids {
					if id.Cmp(fr.dev.PID.KeyInt()) == 0 {
						idx = i
					}
				}
				wD := new(big.Int).Mul(ref.LagrangeAt(ids, idx, new(big.Int), q), xD)
				sD := new(big.Int).Add(rr, new(big.Int).Mul(hInt, wD))
				sD.Mod(sD, q)
				r3 = wireOf(eddsasigning.NewSignRound3Message(fr.dev.PID, sD))
			}
			return r3, m.Bcast, m.From.PID, false
		}
		return m.Wire, m.Bcast, m.From.PID, false
	}
	w.Run(sim.StartsThen(sim.FIFO), nil)
	return fr, nil
}

// runLateResend: the run is honest except that, every time an honest party changes round, the deviator's messages of type
// f.Type that this party received earlier are handed to it once more with f.Field altered (+1).
func runLateResend(s *session, f faultSpec) (*faultRun, error) {
	w, in, err := s.make(s.env.Seed + 41)
	if err != nil {
		return nil, err
	}
	sp := sim.SpecOf(s.Proto, f.Type)
	if sp == nil {
		return nil, fmt.Errorf("no message type %s in %s", f.Type, s.Proto)
	}
	fr := &faultRun{w: w, in: in, s: s, f: f}
	fr.dev = pickDeviator(w, sp.From, f.Pos)
	fr.dev.Deviator = true
	type rec struct {
		wire []byte
		bc   bool
	}
	got := map[*sim.Node][]rec{}
	last := map[*sim.Node]int{}
	w.OnDelivered = append(w.OnDelivered, func(ev *sim.Event, ok bool, err *tss.Error) {
		if ev.Tag == "" && ev.Msg != nil && ev.Msg.From == fr.dev && ev.Msg.Short == f.Type {
			got[ev.Node] = append(got[ev.Node], rec{ev.Wire, ev.Bcast})
		}
	})
	w.AfterStep = append(w.AfterStep, func(ev *sim.Event) {
		n := ev.Node
		if n == nil || n == fr.dev || !n.Started || len(n.Ended) > 0 {
			return
		}
		cur := roundOf(n)
		if cur == last[n] {
			return
		}
		last[n] = cur
		if cur <= sp.Round {
			return
		}
		for _, m := range got[n] {
			vals, err := sim.GetField(m.wire, f.Field)
			if err != nil || len(vals) == 0 {
				continue
			}
			nv := append([][]byte{}, vals...)
			nv[0] = new(big.Int).Add(new(big.Int).SetBytes(nv[0]), big.NewInt(1)).Bytes()
			alt, err := sim.SetField(m.wire, f.Field, nv)
			if err != nil {
				continue
			}
			fr.applied++
			w.Inject(&sim.Event{Kind: sim.EvDeliver, Node: n, Msg: &sim.Msg{From: fr.dev, Short: f.Type, Wire: alt, Bcast: m.bc}, Wire: alt, Bcast: m.bc, FromPID: fr.dev.PID, Tag: "late"})
		}
	})
	w.Run(sim.StartsThen(sim.FIFO), nil)
	return fr, nil
}
