package checks

import (
	"bytes"
	"crypto/ecdsa"
	"encoding/json"
	"fmt"
	"io"
	"math/big"
	"strings"

	"github.com/btcsuite/btcd/chaincfg"

	"github.com/bnb-chain/tss-lib/v2/common"
	"github.com/bnb-chain/tss-lib/v2/crypto"
	"github.com/bnb-chain/tss-lib/v2/crypto/ckd"
	ecdsakeygen "github.com/bnb-chain/tss-lib/v2/ecdsa/keygen"
	ecdsasigning "github.com/bnb-chain/tss-lib/v2/ecdsa/signing"
	eddsakeygen "github.com/bnb-chain/tss-lib/v2/eddsa/keygen"
	eddsasigning "github.com/bnb-chain/tss-lib/v2/eddsa/signing"
	"github.com/bnb-chain/tss-lib/v2/tss"

	"verif/core"
	"verif/ref"
	"verif/sim"
)

// C18 — HD child key derivation matches BIP32; signatures verify under the child key.
// C20 — key material survives storage and reuse; nonces are fresh.

func init() {
	core.Register(&core.Check{
		ID:    "C18",
		Level: "exploration",
		Rule: "derivation: seeded parent keys / chain codes / depths x indices {0,1,2^31-1,seeded} and paths of length 0..5 compared field by field (key, chain code, depth, index, fingerprint, serialised string, offset with child = parent + offset*G) with an independent CKDpub; the published BIP32 vectors (non-hardened steps, used only if the reference reproduces them); refusals for index >= 2^31, depth 255, off-curve parent. " +
			"signing: keys of this run, per-session deep copy adjusted with the library helper, NewLocalPartyWithKDD; signature must pass the C01 oracle under the reference-derived child key, fail under the parent key, stored data unchanged; sequences of 3-5 derive-then-sign steps with different paths and signer subsets. Class = (kind, path shape | sequence id).",
		Assumptions: []string{"reference CKDpub in ref/ validated against the published BIP32 test vectors"},
		Gen:         c18Gen,
		Run:         c18Run,
		MinEvents:   []string{"derivations_compared", "vectors_reproduced", "refusals_checked", "child_key_signatures"},
	})
	core.Register(&core.Check{
		ID:    "C20",
		Level: "exploration",
		Rule: "seeded histories of k operations (quick 8, thorough 25) on one generated key per curve, drawn from {JSON-serialise + reload, sign with subset S from original or reloaded data (parties in any order), sign with a derivation offset (ECDSA), aborted signing (a peer silenced after a seeded step, or one tampered message)}; " +
			"after every operation the stored data of every party is deep-compared with its post-keygen snapshot; signatures from reloaded data must pass the C01/C02 oracle under the same key; over all pairs of completed sessions (incl. same message and signers) the signature R values and each party's own revealed nonce commitments (Gamma_i / R_i seen on the wire) must be pairwise distinct. Class = (curve, history id); non-trivial when >=2 sessions completed and >=1 reload happened.",
		Gen:       c20Gen,
		Run:       c20Run,
		MinEvents: []string{"operations", "snapshots_compared", "nonce_pairs_compared", "reloads"},
	})
}

// ---------------------------------------------------------------- C18

func c18Gen(tier string, seed int64) []core.Case {
	var cs []core.Case
	n := tierN(tier, 5, 40)
	for i := 0; i < n; i++ {
		id := fmt.Sprintf("derive/batch%d", i)
		// the reference arithmetic is big.Int based (milliseconds per point multiplication, up to 256 of them to find a
		// short-X parent): the allowance follows the CPU cost of the tier
		cs = append(cs, core.Case{ID: id, Class: id, Kind: "derive", Cost: float64(tierN(tier, 2, 25)), P: core.P{"i": i, "n": tierN(tier, 100, 300)}})
	}
	cs = append(cs, core.Case{ID: "vectors", Class: "vectors", Kind: "vectors", Cost: 1})
	cs = append(cs, core.Case{ID: "refusals", Class: "refusals", Kind: "refusals", Cost: 1})
	for i := 0; i < tierN(tier, 2, 20); i++ {
		id := fmt.Sprintf("sign-sequence/%d", i)
		cs = append(cs, core.Case{ID: id, Class: id, Kind: "sign", Cost: 12, P: core.P{"i": i, "len": 3 + i%3}})
	}
	return cs
}

func libXKey(pub ref.Pt, chain []byte, depth uint8, index uint32, fp []byte) *ckd.ExtendedKey {
	net := &chaincfg.MainNetParams
	return &ckd.ExtendedKey{
		PublicKey:  ecdsa.PublicKey{Curve: tss.S256(), X: pub.X, Y: pub.Y},
		Depth:      depth,
		ChildIndex: index,
		ChainCode:  chain,
		ParentFP:   fp,
		Version:    net.HDPublicKeyID[:],
	}
}

func refXKey(k *ckd.ExtendedKey) *ref.XPub {
	x := &ref.XPub{Depth: k.Depth, Index: k.ChildIndex, Key: ref.Pt{X: k.X, Y: k.Y}}
	copy(x.Version[:], k.Version)
	copy(x.ParentFP[:], k.ParentFP)
	copy(x.Chain[:], k.ChainCode)
	return x
}

func sameXKey(r *core.Result, what string, lib *ckd.ExtendedKey, want *ref.XPub) {
	if lib.X.Cmp(want.Key.X) != 0 || lib.Y.Cmp(want.Key.Y) != 0 {
		r.Fail("ckd:key", "%s: child key differs from BIP32", what)
	}
	if !bytes.Equal(lib.ChainCode, want.Chain[:]) {
		r.Fail("ckd:chaincode", "%s: chain code differs", what)
	}
	if lib.Depth != want.Depth {
		r.Fail("ckd:depth", "%s: depth %d, want %d", what, lib.Depth, want.Depth)
	}
	if lib.ChildIndex != want.Index {
		r.Fail("ckd:index", "%s: child index %d, want %d", what, lib.ChildIndex, want.Index)
	}
	if !bytes.Equal(lib.ParentFP, want.ParentFP[:]) {
		r.Fail("ckd:fingerprint", "%s: parent fingerprint %x, want %x", what, lib.ParentFP, want.ParentFP)
	}
	if lib.String() != want.String() {
		r.Fail("ckd:serialisation", "%s: serialised extended key differs:\n lib %s\n ref %s", what, lib.String(), want.String())
	}
}

func c18Run(c core.Case, env *core.Env) core.Result {
	r := res(c)
	switch c.Kind {
	case "derive":
		rg := rng(env.Seed, c.ID)
		// every key object the library hands out (and every parent handed in) is kept and looked at again after later
		// derivations from other parents: a result is the caller's and must stay what it was
		type keptKey struct {
			what string
			lib  *ckd.ExtendedKey
			want *ref.XPub
		}
		var kept []keptKey
		recheck := func(upto string) {
			for _, kk := range kept {
				before := r.Verdict
				sameXKey(&r, kk.what+" (looked at again after "+upto+")", kk.lib, kk.want)
				if before != core.Violated && r.Verdict == core.Violated {
					r.Sig = "ckd:kept-key-changed:" + strings.TrimPrefix(r.Sig, "ckd:")
				}
				r.Count("kept_keys_rechecked", 1)
			}
		}
		for k := 0; k < c.P.Int("n"); k++ {
			if k%25 == 24 {
				recheck(fmt.Sprintf("%d more derivations", 25))
			}
			sk := randBig(rg, ref.SecpN)
			if sk.Sign() == 0 {
				continue
			}
			pub := ref.SecpBaseMul(sk)
			if k%5 == 0 {
				// a parent whose X coordinate has a leading zero byte (1 key in 256): its serialisation needs left padding
				for pub.X.BitLen() > 248 {
					sk.Add(sk, big1).Mod(sk, ref.SecpN)
					if sk.Sign() == 0 {
						sk.SetInt64(1)
					}
					pub = ref.SecpBaseMul(sk)
				}
				r.Count("parents_with_short_x", 1)
			}
			chain := randBytes(rg, 32)
			if k%7 == 0 {
				chain[0], chain[1] = 0, 0 // leading zero bytes
			}
			depth := uint8(rg.Intn(254))
			fp := randBytes(rg, 4)
			par := libXKey(pub, chain, depth, uint32(rg.Intn(1000)), fp)
			plen := k % 6
			path := make([]uint32, plen)
			for j := range path {
				switch rg.Intn(5) {
				case 0:
					path[j] = 0
				case 1:
					path[j] = 1
				case 2:
					path[j] = 1<<31 - 1
				default:
					path[j] = uint32(rg.Intn(1 << 31))
				}
			}
			if int(depth)+plen > 255 {
				continue
			}
			// reference walk
			cur := refXKey(par)
			acc := new(big.Int)
			refOK := true
			for _, ix := range path {
				nx, il, err := ref.CKDPub(cur, ix)
				if err != nil {
					refOK = false // IL >= n: 2^-127, the library may refuse too
					break
				}
				acc.Add(acc, il).Mod(acc, ref.SecpN)
				cur = nx
				if cur.Key.X.BitLen() <= 248 {
					r.Count("derived_keys_with_short_x", 1)
				}
			}
			if !refOK {
				continue
			}
			var il *big.Int
			var child *ckd.ExtendedKey
			var err error
			if p, msg, _ := guard(func() { il, child, err = ckd.DeriveChildKeyFromHierarchy(path, par, ref.SecpN, tss.S256()) }); p {
				r.Fail("ckd:panic", "DeriveChildKeyFromHierarchy panicked: %s", msg)
				continue
			}
			if err != nil {
				r.Fail("ckd:refused", "derivation along a non-hardened path %v refused: %v", path, err)
				continue
			}
			what := fmt.Sprintf("path %v from depth %d", path, depth)
			if il == nil || child == nil {
				r.Fail("ckd:nil-result", "%s: derivation reports success but returns a nil offset or key (offset nil: %v)", what, il == nil)
				continue
			}
			sameXKey(&r, what, child, cur)
			kept = append(kept, keptKey{what, child, cur}, keptKey{"parent of " + what, par, refXKey(par)})
			if len(kept) > 400 {
				kept = kept[len(kept)-400:]
			}
			if il.Cmp(acc) != 0 {
				r.Fail("ckd:offset", "%s: returned offset is not the sum of the per-level offsets mod q", what)
			}
			if plen > 0 {
				if !ref.SecpAdd(pub, ref.SecpBaseMul(il)).Eq(ref.Pt{X: child.X, Y: child.Y}) {
					r.Fail("ckd:offset-relation", "%s: child != parent + offset*G", what)
				}
			}
			// string round trip through the library's parser
			back, err := ckd.NewExtendedKeyFromString(child.String(), tss.S256())
			if err != nil {
				r.Fail("ckd:parse-own-string", "library cannot parse its own serialisation: %v", err)
			} else {
				sameXKey(&r, what+" (re-parsed)", back, cur)
				kept = append(kept, keptKey{what + " (re-parsed)", back, cur})
			}
			// single step API
			if plen == 1 {
				il1, ch1, err := ckd.DeriveChildKey(path[0], par, tss.S256())
				if err != nil || il1.Cmp(il) != 0 || ch1.String() != child.String() {
					r.Fail("ckd:single-step", "DeriveChildKey disagrees with DeriveChildKeyFromHierarchy")
				}
			}
			r.Count("derivations_compared", 1)
			r.AddSet("path_lengths", fmt.Sprint(plen))
			// the chain code buffer of a key object rewritten in place between two single-step derivations
			if k%4 == 1 {
				buf := append([]byte{}, chain...)
				keyObj := libXKey(pub, buf, depth, 7, fp)
				keyObj.ChainCode = buf
				for rep := 0; rep < 2; rep++ {
					if rep == 1 {
						for i := range buf {
							buf[i] ^= byte(0x5a + i)
						}
					}
					want, _, rerr := ref.CKDPub(refXKey(keyObj), 5)
					_, ch, err := ckd.DeriveChildKey(5, keyObj, tss.S256())
					if rerr != nil || err != nil {
						break
					}
					if ch.String() != want.String() {
						r.Fail("ckd:chain-buffer-reuse", "a derivation after the key's chain code buffer was rewritten in place does not match BIP32 (first derivation right: %v)", rep == 1)
						break
					}
					r.Count("chain_buffer_rewrites", 1)
				}
			}
			// an application parses its account xpub once and keeps deriving from that object, serialising children as
			// it goes: the parent must stay what it was and the next child must be right too
			if k%3 == 0 && plen >= 1 {
				parsed, err := ckd.NewExtendedKeyFromString(refXKey(par).String(), tss.S256())
				if err != nil {
					r.Fail("ckd:parse-reference-string", "library cannot parse the reference serialisation of the parent: %v", err)
					continue
				}
				before := parsed.String()
				chain0 := append([]byte{}, parsed.ChainCode...)
				for rep := 0; rep < 2; rep++ {
					ix := path[0] ^ uint32(rep)
					_, ch, err := ckd.DeriveChildKey(ix, parsed, tss.S256())
					want, _, rerr := ref.CKDPub(refXKey(par), ix)
					if rerr != nil {
						break
					}
					if err != nil {
						r.Fail("ckd:refused", "derivation %d from a parsed parent refused: %v", rep+1, err)
						break
					}
					if ch.String() != want.String() { // serialising the child is part of the sequence
						r.Fail("ckd:parsed-parent-reuse", "child %d derived from the same parsed parent object differs from BIP32 (the first one was right: %v)", rep+1, rep == 1)
						break
					}
					if parsed.String() != before || !bytes.Equal(parsed.ChainCode, chain0) {
						r.Fail("ckd:parent-modified", "deriving and serialising a child changed the parent key object")
						break
					}
					r.Count("parsed_parent_derivations", 1)
				}
			}
		}
		recheck("the whole batch")
		r.NonTrivial = r.Obs["derivations_compared"] > 0
		r.Sample = map[string]any{"case": c.ID, "derivations": r.Obs["derivations_compared"]}
	case "vectors":
		for ci, chain := range ref.Bip32Chains {
			for i := 1; i < len(chain); i++ {
				if chain[i].Hardened {
					continue
				}
				par, err := ref.ParseXPub(chain[i-1].XPub)
				if err != nil {
					continue
				}
				want, _, err := ref.CKDPub(par, chain[i].Index)
				if err != nil || want.String() != chain[i].XPub {
					continue // the reference does not reproduce this vector: do not use it
				}
				lp, err := ckd.NewExtendedKeyFromString(chain[i-1].XPub, tss.S256())
				if err != nil {
					r.Fail("ckd:vector-parse", "library cannot parse the published xpub of vector %d step %d: %v", ci+1, i, err)
					continue
				}
				if lp.String() != chain[i-1].XPub {
					r.Fail("ckd:vector-reserialise", "library re-serialises a published xpub differently")
				}
				_, ch, err := ckd.DeriveChildKey(chain[i].Index, lp, tss.S256())
				if err != nil {
					r.Fail("ckd:vector-refused", "library refuses published vector %d step %d: %v", ci+1, i, err)
					continue
				}
				if ch.String() != chain[i].XPub {
					r.Fail("ckd:vector-mismatch", "published BIP32 vector %d step %d (index %d): library gives %s, published %s", ci+1, i, chain[i].Index, ch.String(), chain[i].XPub)
				}
				r.Count("vectors_reproduced", 1)
			}
		}
		r.NonTrivial = r.Obs["vectors_reproduced"] > 0
	case "refusals":
		pub := ref.SecpBaseMul(big.NewInt(777))
		par := libXKey(pub, make([]byte, 32), 3, 0, []byte{1, 2, 3, 4})
		for _, ix := range []uint32{1 << 31, 1<<31 + 1, 1<<32 - 1} {
			if _, _, err := ckd.DeriveChildKey(ix, par, tss.S256()); err == nil {
				r.Fail("ckd:hardened-accepted", "hardened index %d accepted", ix)
			}
			if _, _, err := ckd.DeriveChildKeyFromHierarchy([]uint32{0, ix}, par, ref.SecpN, tss.S256()); err == nil {
				r.Fail("ckd:hardened-accepted", "hardened index %d accepted inside a path", ix)
			}
			r.Count("refusals_checked", 2)
		}
		deep := libXKey(pub, make([]byte, 32), 255, 0, []byte{1, 2, 3, 4})
		if _, _, err := ckd.DeriveChildKey(0, deep, tss.S256()); err == nil {
			r.Fail("ckd:depth-overflow", "derivation beyond depth 255 accepted")
		}
		d254 := libXKey(pub, make([]byte, 32), 254, 0, []byte{1, 2, 3, 4})
		if _, ch, err := ckd.DeriveChildKey(0, d254, tss.S256()); err != nil || ch.Depth != 255 {
			r.Fail("ckd:depth-254", "derivation from depth 254 refused or wrong depth")
		}
		if _, _, err := ckd.DeriveChildKeyFromHierarchy([]uint32{0, 0}, d254, ref.SecpN, tss.S256()); err == nil {
			r.Fail("ckd:depth-overflow", "path running past depth 255 accepted")
		}
		off := libXKey(ref.Pt{X: new(big.Int).Add(pub.X, big1), Y: pub.Y}, make([]byte, 32), 1, 0, []byte{1, 2, 3, 4})
		var err error
		if p, msg, _ := guard(func() { _, _, err = ckd.DeriveChildKey(0, off, tss.S256()) }); p {
			r.Fail("ckd:off-curve-panic", "off-curve parent panics: %s", msg)
		} else if err == nil {
			r.Fail("ckd:off-curve-accepted", "off-curve parent key accepted")
		}
		// the all-zero key (an unset or failed-to-decode parent): not a point of the curve
		for what, bad := range map[string]*ckd.ExtendedKey{
			"(0,0)":     libXKey(ref.Pt{X: big.NewInt(0), Y: big.NewInt(0)}, make([]byte, 32), 1, 0, []byte{1, 2, 3, 4}),
			"(0,y)":     libXKey(ref.Pt{X: big.NewInt(0), Y: pub.Y}, make([]byte, 32), 1, 0, []byte{1, 2, 3, 4}),
			"(x,0)":     libXKey(ref.Pt{X: pub.X, Y: big.NewInt(0)}, make([]byte, 32), 1, 0, []byte{1, 2, 3, 4}),
			"(x,p-y)+1": libXKey(ref.Pt{X: pub.X, Y: new(big.Int).Add(new(big.Int).Sub(ref.SecpP, pub.Y), big1)}, make([]byte, 32), 1, 0, []byte{1, 2, 3, 4}),
		} {
			var err error
			if p, msg, _ := guard(func() { _, _, err = ckd.DeriveChildKey(0, bad, tss.S256()) }); p {
				r.Fail("ckd:off-curve-panic", "invalid parent %s panics: %s", what, msg)
			} else if err == nil {
				r.Fail("ckd:off-curve-accepted", "invalid parent key %s accepted", what)
			}
			r.Count("refusals_checked", 1)
		}
		r.Count("refusals_checked", 4)
		r.NonTrivial = true
	case "sign":
		c18Sign(&r, c, env)
	}
	return r
}

func c18Sign(r *core.Result, c core.Case, env *core.Env) {
	keys, err := ECDSAKey(env, 5, 2, "vendored")
	n, t := 5, 2
	if c.P.Int("i")%2 == 1 {
		keys, err = ECDSAKey(env, 3, 1, "seeded")
		n, t = 3, 1
	}
	if err != nil {
		r.Inconcl("key setup: %v", err)
		return
	}
	stored := (&ecdsaSet{keys}).Copy().(*ecdsaSet) // the application's stored key
	snaps := snapshotECDSA(stored.d)
	parent := refPt(stored.d[0].ECDSAPub)
	rg := rng(env.Seed, c.ID)
	chain := randBytes(rg, 32)
	for step := 0; step < c.P.Int("len"); step++ {
		plen := 1 + rg.Intn(4)
		path := make([]uint32, plen)
		for j := range path {
			path[j] = uint32(rg.Intn(1 << 31))
		}
		par := libXKey(parent, chain, 0, 0, []byte{0, 0, 0, 0})
		delta, child, err := ckd.DeriveChildKeyFromHierarchy(path, par, ref.SecpN, tss.S256())
		if err != nil {
			r.Inconcl("derivation refused: %v", err)
			return
		}
		// reference child key
		cur := refXKey(par)
		for _, ix := range path {
			cur, _, err = ref.CKDPub(cur, ix)
			if err != nil {
				r.Inconcl("reference derivation refused")
				return
			}
		}
		// signer subset of size t+1..n
		size := t + 1 + rg.Intn(n-t)
		sel := rg.Perm(n)[:size]
		session := stored.Copy().Subset(sel).(*ecdsaSet) // per-session deep copy
		if step%2 == 0 {
			// one call with the data of all signers (how the repository's own test does it)
			if err := ecdsasigning.UpdatePublicKeyAndAdjustBigXj(delta, session.d, &child.PublicKey, tss.S256()); err != nil {
				r.Fail("kdd:adjust", "UpdatePublicKeyAndAdjustBigXj failed: %v", err)
				return
			}
			r.AddSet("adjust_modes", "all-signers-in-one-call")
		} else {
			// the distributed configuration: every node adjusts only its own key data
			for i := range session.d {
				if err := ecdsasigning.UpdatePublicKeyAndAdjustBigXj(delta, session.d[i:i+1], &child.PublicKey, tss.S256()); err != nil {
					r.Fail("kdd:adjust", "UpdatePublicKeyAndAdjustBigXj (own data only) failed: %v", err)
					return
				}
			}
			r.AddSet("adjust_modes", "each-node-its-own-data")
		}
		msg := randBig(rg, ref.SecpN)
		adjusted := snapshotECDSA(session.d) // the adjusted key data the application holds for this child key
		var outs []*common.SignatureData
		// two sessions with the same adjusted in-memory key data: signing must not change what it was given
		for again := 0; again < 2; again++ {
			if again == 1 {
				msg = randBig(rg, ref.SecpN)
			}
			w := sim.ECDSASigning(env.Seed+int64(step)+int64(1000*again), session.d, t, msg, sim.SignOpts{KDD: delta, Shuffle: true})
			w.Run(sim.StartsThen(sim.Random), nil)
			var missing []string
			outs, missing = sigOuts(w)
			if errs := errorsOf(w); len(errs) > 0 || len(missing) > 0 {
				r.Fail("kdd:sign-failed", "signing with a derivation offset failed (path %v, signers %v, session %d with this key data): %v %v", path, sel, again+1, core.Clip(strings.Join(errs, " | "), 300), missing)
				return
			}
			before := r.Obs["signatures_verified"]
			ecdsaSigOracle(r, cur.Key, msg, 0, outs)
			if r.Obs["signatures_verified"] > before {
				r.Count("child_key_signatures", 1)
			}
			if d := diffECDSA(adjusted, session.d); d != "" {
				r.Fail("kdd:session-key-modified", "signing with a derivation offset changed the key data it was given (session %d): %s", again+1, d)
				return
			}
		}
		rr, ss := new(big.Int).SetBytes(outs[0].R), new(big.Int).SetBytes(outs[0].S)
		if ref.ECDSAVerify(parent, msg, rr, ss) {
			r.Fail("kdd:verifies-under-parent", "the signature verifies under the parent key: the offset was not applied")
		}
		if d := diffECDSA(snaps, stored.d); d != "" {
			r.Fail("kdd:stored-key-modified", "stored key shares changed by a derive-then-sign step: %s", d)
			return
		}
		r.Count("derive_sign_steps", 1)
	}
	r.NonTrivial = r.Obs["child_key_signatures"] > 0
	r.Sample = map[string]any{"case": c.ID, "steps": r.Obs["derive_sign_steps"]}
}

// ---------------------------------------------------------------- C20

func c20Gen(tier string, seed int64) []core.Case {
	var cs []core.Case
	n := tierN(tier, 4, 40)
	for i := 0; i < n; i++ {
		for _, curve := range []string{"ed25519", "secp256k1"} {
			if curve == "secp256k1" && tier != "thorough" && i >= 2 {
				continue
			}
			id := fmt.Sprintf("history/%s/%d", curve, i)
			cost := 4.0
			if curve == "secp256k1" {
				cost = 25
			}
			cs = append(cs, core.Case{ID: id, Class: id, Kind: "history", Cost: cost, P: core.P{"curve": curve, "i": i, "k": tierN(tier, 8, 25)}})
		}
	}
	// setting up a session from the saved parties in any order: building the sorted committee must not reorder or otherwise
	// change what the caller passed in (callers pair ids[i] with keys[i] by position)
	cs = append(cs, core.Case{ID: "setup/sorting-leaves-the-callers-list-alone", Class: "setup/sorting", Kind: "sorting", Cost: 1})
	return cs
}

// c20Sorting: tss.SortPartyIDs on descending, shuffled and duplicate-free lists.
func c20Sorting(r *core.Result, seed int64) {
	rg := rng(seed, "c20sorting")
	for rep := 0; rep < 50; rep++ {
		n := 2 + rg.Intn(8)
		un := make(tss.UnSortedPartyIDs, n)
		for i := range un {
			un[i] = tss.NewPartyID(fmt.Sprint("id", i), fmt.Sprint("m", i), big.NewInt(int64(1000*(n-i)+rg.Intn(900))))
		}
		if rep%2 == 1 {
			rg.Shuffle(n, func(i, j int) { un[i], un[j] = un[j], un[i] })
		}
		before := append(tss.UnSortedPartyIDs{}, un...)
		sorted := tss.SortPartyIDs(un)
		for i := range un {
			if un[i] != before[i] {
				r.Fail("sorting:input-reordered", "tss.SortPartyIDs reordered the caller's list (position %d of %d)", i, n)
				return
			}
		}
		if len(sorted) != n {
			r.Fail("sorting:length", "SortPartyIDs returned %d of %d parties", len(sorted), n)
			return
		}
		for i := range sorted {
			if i > 0 && sorted[i-1].KeyInt().Cmp(sorted[i].KeyInt()) >= 0 {
				r.Fail("sorting:order", "SortPartyIDs output is not ascending by key")
				return
			}
			if sorted[i].Index != i {
				r.Fail("sorting:index", "SortPartyIDs did not number the parties by position")
				return
			}
		}
		r.Count("lists_sorted", 1)
	}
	r.NonTrivial = true
}

// nonceTap records each signer's revealed nonce commitment from the wire.
func nonceTap(w *sim.World, into map[string][]string) {
	w.OnSent = append(w.OnSent, func(m *sim.Msg) {
		pm, ok := m.Orig.(tss.ParsedMessage)
		if !ok {
			return
		}
		var d []*big.Int
		switch c := pm.Content().(type) {
		case *ecdsasigning.SignRound4Message:
			d = c.UnmarshalDeCommitment()
		case *eddsasigning.SignRound2Message:
			d = c.UnmarshalDeCommitment()
		}
		if len(d) == 3 {
			id := m.From.PID.KeyInt().Text(16)
			into[id] = append(into[id], d[1].Text(16)+","+d[2].Text(16))
		}
	})
}

func jsonReload(r *core.Result, ks keyset) keyset {
	// stored data must mean the same whatever the process-wide default curve is when it is loaded (a process may serve
	// both curves and switch the deprecated global): every other record is loaded under the other default
	prev := tss.EC()
	defer tss.SetCurve(prev)
	flip := func(i int) {
		if i%2 == 1 {
			if tss.SameCurve(prev, tss.S256()) {
				tss.SetCurve(tss.Edwards())
			} else {
				tss.SetCurve(tss.S256())
			}
			r.Count("loads_under_other_default_curve", 1)
		} else {
			tss.SetCurve(prev)
		}
	}
	switch s := ks.(type) {
	case *ecdsaSet:
		o := &ecdsaSet{}
		for i := range s.d {
			b, err := json.Marshal(s.d[i])
			if err != nil {
				r.Fail("store:marshal", "cannot serialise key data: %v", err)
				return nil
			}
			var d ecdsakeygen.LocalPartySaveData
			flip(i)
			if err := json.Unmarshal(b, &d); err != nil {
				r.Fail("store:unmarshal", "cannot load serialised key data: %v", err)
				return nil
			}
			o.d = append(o.d, d)
		}
		return o
	case *eddsaSet:
		o := &eddsaSet{}
		for i := range s.d {
			b, err := json.Marshal(s.d[i])
			if err != nil {
				r.Fail("store:marshal", "cannot serialise key data: %v", err)
				return nil
			}
			var d eddsakeygen.LocalPartySaveData
			flip(i)
			if err := json.Unmarshal(b, &d); err != nil {
				r.Fail("store:unmarshal", "cannot load serialised key data: %v", err)
				return nil
			}
			o.d = append(o.d, d)
		}
		return o
	}
	return nil
}

func c20Run(c core.Case, env *core.Env) core.Result {
	r := res(c)
	if c.Kind == "sorting" {
		c20Sorting(&r, env.Seed)
		return r
	}
	curve := c.P.Str("curve")
	shapes := [][2]int{{3, 1}, {4, 2}, {5, 2}, {3, 2}}
	sh := shapes[c.P.Int("i")%len(shapes)]
	n, t := sh[0], sh[1]
	pattern := []string{"seeded", "small", "large"}[c.P.Int("i")%3]
	if !isEd(curve) {
		n, t, pattern = 5, 2, "vendored"
		if c.P.Int("i")%2 == 1 {
			n, t, pattern = 3, 1, "seeded"
		}
	}
	stored, err := loadKeyset(env, curve, n, t, pattern, c.ID)
	if err != nil {
		r.Inconcl("key setup: %v", err)
		return r
	}
	pub := stored.Pub()
	snaps := make([]snap, stored.N())
	for i := range snaps {
		snaps[i] = stored.Snap(i)
	}
	checkStored := func(after string) bool {
		for i := range snaps {
			r.Count("snapshots_compared", 1)
			if d := snaps[i].diff(stored.Snap(i)); d != "" {
				r.Fail("store:modified-by:"+strings.SplitN(after, " ", 2)[0], "stored key data of party %d changed after %s: %s", i, after, d)
				return false
			}
		}
		return true
	}
	rg := rng(env.Seed, c.ID)
	reloaded := keyset(nil)
	var sigRs []string
	nonces := map[string][]string{}
	fixedMsg := big.NewInt(424242)
	fixedSel := firstK(t + 1)
	ops := c.P.Int("k")
	// one quorum object per signer set for the whole history (an application builds its PeerContext once), and a replayable
	// source behind Parameters.SetPartialKeyRand (a keygen knob that signing has no business reading): with both, every
	// session must still succeed, leave the key alone and use a fresh nonce
	ctxCache := map[string]*tss.PeerContext{}
	pkRand := func(i int) io.Reader { return &detReader{seed: []byte(fmt.Sprintf("partial-key-rand/%d", i))} }
	for op := 0; op < ops; op++ {
		kind := []string{"reload", "sign", "sign", "sign-same", "sign-offset", "abort-silence", "abort-tamper", "sign-reloaded"}[rg.Intn(8)]
		if op == 0 {
			kind = "sign-same"
		}
		if op == 1 {
			kind = "reload"
		}
		if op == 2 {
			kind = "sign-same"
		}
		if kind == "sign-offset" && isEd(curve) {
			kind = "sign"
		}
		r.Count("operations", 1)
		r.AddSet("operation_kinds", kind)
		src := stored
		if (kind == "sign-reloaded" || rg.Intn(3) == 0) && reloaded != nil && kind != "reload" {
			src = reloaded
		}
		sel := rg.Perm(n)[:t+1+rg.Intn(n-t)]
		msg := randBig(rg, orderOf(curve))
		if kind == "sign-same" {
			sel, msg = fixedSel, fixedMsg
		}
		switch kind {
		case "reload":
			reloaded = jsonReload(&r, stored)
			if reloaded == nil {
				return r
			}
			r.Count("reloads", 1)
			for i := range snaps {
				if d := snaps[i].diff(reloaded.Snap(i)); d != "" {
					r.Fail("store:reload-differs", "key data of party %d differs after JSON serialise + load: %s", i, d)
					return r
				}
			}
		case "sign", "sign-same", "sign-reloaded":
			// the signing constructors receive the stored structs themselves (by value): that is how an application uses them
			in := src.Subset(sel)
			w := in.SignWorld(env.Seed+int64(op), t, msg, sim.SignOpts{Shuffle: rg.Intn(2) == 0, CtxCache: ctxCache, PartialKeyRand: pkRand})
			nonceTap(w, nonces)
			w.Run(sim.StartsThen(schedByName([]string{"fifo", "random", "lifo"}[rg.Intn(3)], w)), nil)
			outs, missing := sigOuts(w)
			if errs := errorsOf(w); len(errs) > 0 || len(missing) > 0 {
				r.Fail("history:sign-failed", "operation %d (%s, signers %v): signing failed: %s %v", op, kind, sel, core.Clip(strings.Join(errs, " | "), 300), missing)
				return r
			}
			if isEd(curve) {
				eddsaSigOracle(&r, pub, msg, 0, outs)
			} else {
				ecdsaSigOracle(&r, pub, msg, 0, outs)
			}
			sigRs = append(sigRs, fmt.Sprintf("%x", outs[0].R))
			r.Count("sessions_completed", 1)
		case "sign-offset":
			es := src.(*ecdsaSet)
			par := libXKey(pub, bytes.Repeat([]byte{byte(op + 1)}, 32), 0, 0, []byte{0, 0, 0, 0})
			delta, child, err := ckd.DeriveChildKeyFromHierarchy([]uint32{uint32(op), 7}, par, ref.SecpN, tss.S256())
			if err != nil {
				continue
			}
			session := es.Copy().Subset(sel).(*ecdsaSet)
			shallow := r.Obs["shallow_copy_adjustments"] <= r.Obs["deep_copy_adjustments"]
			if !shallow {
				r.Count("deep_copy_adjustments", 1)
			}
			var storedSnap []snap
			if shallow {
				// the copy an application typically makes: the structs by value and fresh slices, the point and integer
				// objects shared with the stored key. What the helper is documented to replace (ECDSAPub, the BigXj
				// entries) lives in the copy; the stored key must stay as it was.
				session = &ecdsaSet{}
				for _, i := range sel {
					d := es.d[i]
					d.BigXj = append([]*crypto.ECPoint{}, es.d[i].BigXj...)
					session.d = append(session.d, d)
				}
				storedSnap = snapshotECDSA(es.d)
			}
			if err := ecdsasigning.UpdatePublicKeyAndAdjustBigXj(delta, session.d, &child.PublicKey, tss.S256()); err != nil {
				r.Fail("history:kdd-adjust", "UpdatePublicKeyAndAdjustBigXj: %v", err)
				return r
			}
			if shallow {
				if d := diffECDSA(storedSnap, es.d); d != "" {
					r.Fail("history:key-modified", "operation %d (sign-offset): adjusting a copy (own structs and slices, shared point objects) changed the stored key: %s", op, d)
					return r
				}
				r.Count("shallow_copy_adjustments", 1)
			}
			adjusted := snapshotECDSA(session.d)
			w := sim.ECDSASigning(env.Seed+int64(op), session.d, t, msg, sim.SignOpts{KDD: delta, CtxCache: ctxCache, PartialKeyRand: pkRand})
			nonceTap(w, nonces)
			w.Run(sim.StartsThen(sim.FIFO), nil)
			outs, missing := sigOuts(w)
			if errs := errorsOf(w); len(errs) > 0 || len(missing) > 0 {
				r.Fail("history:kdd-sign-failed", "operation %d: signing with an offset failed: %s", op, core.Clip(strings.Join(errs, " | "), 300))
				return r
			}
			if d := diffECDSA(adjusted, session.d); d != "" {
				r.Fail("history:key-modified", "operation %d (sign-offset): the session changed the key data it was given: %s", op, d)
				return r
			}
			ecdsaSigOracle(&r, ref.Pt{X: child.X, Y: child.Y}, msg, 0, outs)
			sigRs = append(sigRs, fmt.Sprintf("%x", outs[0].R))
			r.Count("sessions_completed", 1)
		case "abort-silence", "abort-tamper":
			in := src.Subset(sel)
			w := in.SignWorld(env.Seed+int64(op), t, msg, sim.SignOpts{CtxCache: ctxCache, PartialKeyRand: pkRand})
			nonceTap(w, nonces)
			if kind == "abort-silence" {
				who, at := rg.Intn(len(w.Nodes)), 2+rg.Intn(10*len(w.Nodes))
				w.Run(sim.StartsThen(sim.FIFO), func(w *sim.World) bool {
					if len(w.Steps) >= at {
						w.Nodes[who].Silent = true
					}
					return false
				})
			} else {
				dev := w.Nodes[rg.Intn(len(w.Nodes))]
				hit := 2 + rg.Intn(4)
				cnt := 0
				w.Rewrite = func(w *sim.World, m *sim.Msg, to *sim.Node) ([]byte, bool, *tss.PartyID, bool) {
					if m.From == dev {
						cnt++
						if cnt == hit {
							wire := append([]byte{}, m.Wire...)
							wire[len(wire)-1] ^= 0x55
							return wire, m.Bcast, m.From.PID, false
						}
					}
					return m.Wire, m.Bcast, m.From.PID, false
				}
				w.Run(sim.StartsThen(sim.FIFO), nil)
			}
			outs, _ := sigOuts(w)
			if len(outs) == len(w.Nodes) && len(errorsOf(w)) == 0 {
				sigRs = append(sigRs, fmt.Sprintf("%x", outs[0].R))
				r.Count("sessions_completed", 1)
			} else {
				r.Count("sessions_aborted", 1)
			}
		}
		if !checkStored(fmt.Sprintf("%s (operation %d)", kind, op)) {
			return r
		}
		if reloaded != nil {
			for i := range snaps {
				if d := snaps[i].diff(reloaded.Snap(i)); d != "" {
					r.Fail("store:reloaded-modified", "reloaded key data of party %d changed after %s: %s", i, kind, d)
					return r
				}
			}
		}
	}
	// nonce freshness
	for i := range sigRs {
		for j := 0; j < i; j++ {
			r.Count("nonce_pairs_compared", 1)
			if sigRs[i] == sigRs[j] {
				r.Fail("nonce:signature-R-reused", "two completed signing sessions (%d and %d) produced the same R", j, i)
			}
		}
	}
	for id, list := range nonces {
		for i := range list {
			for j := 0; j < i; j++ {
				r.Count("nonce_pairs_compared", 1)
				if list[i] == list[j] {
					r.Fail("nonce:party-commitment-reused", "party %s revealed the same nonce commitment in two sessions", id[:8])
				}
			}
		}
	}
	r.NonTrivial = r.Obs["sessions_completed"] >= 2 && r.Obs["reloads"] >= 1
	r.Sample = map[string]any{"case": c.ID, "operations": ops, "completed": r.Obs["sessions_completed"], "aborted": r.Obs["sessions_aborted"], "distinct_R": len(sigRs)}
	_ = common.SignatureData{}
	_ = crypto.ECPoint{}
	return r
}
