package checks

import (
	"fmt"
	mrand "math/rand"
	"runtime"
	"sort"
	"strings"
	"sync"
	"sync/atomic"
	"time"

	"github.com/anishathalye/porcupine"

	"github.com/bnb-chain/tss-lib/v2/tss"

	"verif/core"
	"verif/sim"
)

// C09 — the update API is safe to call from many goroutines.
//
// Built with -race -tags verif. Every delivery is made from its own goroutine, Start runs in its own goroutine while
// deliveries are already arriving, extra goroutines poll WaitingFor(); the hook in tss.BaseStart/BaseUpdate injects
// seeded yields exactly between the library's critical sections and records the order in which updates took the
// party lock. Monitors: the Go race detector (its reports are collected from the log by the driver), the outcome
// oracle (every party ends once, result valid, no error), and a porcupine linearizability check of each party's
// history of Start / Update / WaitingFor operations against the sequential round model.

func init() {
	core.Register(&core.Check{
		ID:    "C09",
		Level: "exploration",
		Race:  true,
		Rule: "for each of the six protocols: seeded concurrent runs (quick: 12 per EdDSA protocol, 3-4 per ECDSA protocol; thorough 10x) in which every delivery, every Start and 2-3 WaitingFor pollers per party are separate goroutines, with yields / microsecond sleeps drawn from the seed at the five hook points around the party lock. " +
			"Oracles: zero race-detector reports; every party ends exactly once with a result that passes the C01-C04 oracle and no call returns an error; each party's history of Start/Update/WaitingFor calls (call and return stamps from one atomic counter, recorded at the caller) is linearizable against the model 'WaitingFor = f(started, set of delivered messages)' from the protocol table. " +
			"Class = (protocol, configuration, run seed); non-trivial when the run completed and >=1 history was checked. Evidence counts goroutines, distinct lock-acquisition orders seen through the hook, porcupine verdicts.",
		Assumptions: []string{"the race detector only sees interleavings that occur", "Running()/String() are not in the property's API list and are not called concurrently"},
		Gen:         c09Gen,
		Run:         c09Run,
		MinEvents:   []string{"concurrent_runs_completed", "histories_linearizable", "hook_points_hit", "goroutines_spawned"},
		Workers:     6,
	})
}

func c09Gen(tier string, seed int64) []core.Case {
	var cs []core.Case
	mult := tierN(tier, 1, 10)
	cfgs := []struct {
		sc   sessCfg
		runs int
	}{
		{sessCfg{"eddsa-keygen", 3, 1, nil, 0, 0, "small", 4}, 12},
		{sessCfg{"eddsa-signing", 3, 1, []int{0, 1, 2}, 0, 0, "seeded", 3}, 12},
		{sessCfg{"eddsa-resharing", 3, 1, []int{0, 1}, 3, 1, "seeded", 5}, 12},
		{sessCfg{"eddsa-keygen", 5, 2, nil, 0, 0, "seeded", 8}, 4},
		{sessCfg{"ecdsa-keygen", 3, 1, nil, 0, 0, "small", 25}, 3},
		{sessCfg{"ecdsa-signing", 5, 2, []int{0, 2, 4}, 0, 0, "vendored", 8}, 4},
		{sessCfg{"ecdsa-resharing", 5, 2, []int{0, 1, 3}, 3, 1, "vendored", 30}, 3},
	}
	for _, c := range cfgs {
		for i := 0; i < c.runs*mult; i++ {
			p := c.sc.P()
			p["run"] = i
			id := fmt.Sprintf("%s/run%d", c.sc.name(), i)
			cs = append(cs, core.Case{ID: id, Class: id, Kind: "concurrent", P: p, Cost: c.sc.cost})
		}
	}
	return cs
}

type histOp struct {
	client  int
	kind    string // start | update | waiting
	key     string // update: "Type<Sender"
	flagOK  bool
	call    int64
	ret     int64
	okRet   bool
	errText string
	waiting []string
	overlap []string // waiting ops: keys of the accepted updates whose call/return interval overlaps this op's
}

type c09State struct {
	started   bool
	delivered string // sorted, comma separated keys with right channel kind
	fresh     bool   // started and no update linearized since: the per-round flags have not been evaluated yet
}

func c09Run(c core.Case, env *core.Env) core.Result {
	r := res(c)
	s, err := sessionFromP(env, c.P)
	if err != nil {
		r.Inconcl("session setup failed: %v", err)
		return r
	}
	runSeed := env.Seed*1000 + int64(c.P.Int("run"))
	w, in, err := s.make(runSeed)
	if err != nil {
		r.Inconcl("cannot build: %v", err)
		return r
	}
	rg := mrand.New(mrand.NewSource(runSeed))
	var rgMu sync.Mutex
	rnd := func(n int) int { rgMu.Lock(); defer rgMu.Unlock(); return rg.Intn(n) }

	var clock int64
	tick := func() int64 { return atomic.AddInt64(&clock, 1) }
	var histMu sync.Mutex
	hist := map[string][]histOp{}
	addOp := func(node string, op histOp) {
		histMu.Lock()
		hist[node] = append(hist[node], op)
		histMu.Unlock()
	}
	// hook: seeded yields + lock order recording
	var hookHits int64
	var orderMu sync.Mutex
	lockOrder := map[string][]string{}
	nodeOf := map[tss.Party]*sim.Node{}
	for _, n := range w.Nodes {
		nodeOf[n.Party] = n
	}
	hooked := setVerifHook(func(point string, p tss.Party, m tss.ParsedMessage) {
		atomic.AddInt64(&hookHits, 1)
		if point == "update:locked" || point == "start:locked" {
			if n := nodeOf[p]; n != nil {
				k := "S"
				if m != nil {
					k = shortType(m.Type()) + "<" + fmt.Sprint(m.GetFrom().Index)
				}
				orderMu.Lock()
				lockOrder[n.Name] = append(lockOrder[n.Name], k)
				orderMu.Unlock()
			}
			return // never delay inside the critical section: that adds nothing
		}
		switch rnd(4) {
		case 0:
			runtime.Gosched()
		case 1:
			time.Sleep(time.Duration(rnd(200)) * time.Microsecond)
		}
	})
	defer setVerifHook(nil)
	if !hooked {
		r.Inconcl("built without the verif tag: the suspension-point hook is not available")
		return r
	}

	// every third run: one party gets two racing Start() calls (an application that retries, or two components that
	// both think they own the session). Exactly one may succeed, the other must come back with an error, and nothing else
	// may change. Deliveries to that party are held until both calls are back, so that "already started" is the only
	// reason a Start can have for failing.
	var dsNode *sim.Node
	dsGate := make(chan struct{})
	if c.P.Int("run")%3 == 1 {
		dsNode = w.Nodes[rnd(len(w.Nodes))]
	}
	var dsNil, dsErr int64

	var wg sync.WaitGroup
	var spawned int64
	var errMu sync.Mutex
	var errs []string
	var panics []string
	clientSeq := int64(0)
	done := make(chan struct{})
	// routers: one per node, every delivery in its own goroutine
	for _, n := range w.Nodes {
		n := n
		go func() {
			for {
				select {
				case tm := <-n.Out:
					msg, derr := w.Describe(n, tm)
					if derr != nil {
						continue
					}
					for _, rc := range msg.Recips {
						rc := rc
						wg.Add(1)
						atomic.AddInt64(&spawned, 1)
						cl := int(atomic.AddInt64(&clientSeq, 1))
						useParsed := rnd(2) == 0
						delay := rnd(300)
						go func() {
							defer wg.Done()
							defer func() {
								if e := recover(); e != nil {
									errMu.Lock()
									panics = append(panics, fmt.Sprintf("%s: panic in Update(%s): %v", rc.Name, msg.Key(), e))
									errMu.Unlock()
								}
							}()
							if delay < 100 {
								runtime.Gosched()
							} else {
								time.Sleep(time.Duration(delay) * time.Microsecond)
							}
							if rc == dsNode {
								select {
								case <-dsGate:
								case <-done:
									return
								}
							}
							sp := sim.SpecOf(w.Proto, msg.Short)
							op := histOp{client: cl, kind: "update", key: msg.Key(), flagOK: sp != nil && sp.Bcast == msg.Bcast, call: tick()}
							var ok bool
							var uerr *tss.Error
							if useParsed {
								pm, perr := tss.ParseWireMessage(msg.Wire, n.PID, msg.Bcast)
								if perr != nil {
									return
								}
								ok, uerr = rc.Party.Update(pm)
							} else {
								ok, uerr = rc.Party.UpdateFromBytes(msg.Wire, n.PID, msg.Bcast)
							}
							op.ret, op.okRet = tick(), ok
							if uerr != nil {
								op.errText = uerr.Error()
								errMu.Lock()
								errs = append(errs, rc.Name+": "+uerr.Error())
								errMu.Unlock()
							}
							addOp(rc.Name, op)
						}()
					}
				case <-done:
					return
				}
			}
		}()
	}
	// Start of every party in its own goroutine, at a seeded moment
	order := rg.Perm(len(w.Nodes))
	var dsWG sync.WaitGroup
	if dsNode != nil {
		for i, n := range w.Nodes {
			if n == dsNode {
				order = append(order, i) // a second Start goroutine for this party
			}
		}
		dsWG.Add(2)
		go func() { dsWG.Wait(); close(dsGate) }()
	}
	for _, i := range order {
		n := w.Nodes[i]
		wg.Add(1)
		atomic.AddInt64(&spawned, 1)
		cl := int(atomic.AddInt64(&clientSeq, 1))
		delay := rnd(400)
		go func() {
			defer wg.Done()
			time.Sleep(time.Duration(delay) * time.Microsecond)
			op := histOp{client: cl, kind: "start", call: tick()}
			serr := n.Party.Start()
			op.ret = tick()
			if n == dsNode {
				if serr != nil {
					op.errText = serr.Error()
					atomic.AddInt64(&dsErr, 1)
				} else {
					atomic.AddInt64(&dsNil, 1)
				}
				addOp(n.Name, op)
				dsWG.Done()
				return
			}
			if serr != nil {
				op.errText = serr.Error()
				errMu.Lock()
				errs = append(errs, n.Name+" Start: "+serr.Error())
				errMu.Unlock()
			}
			addOp(n.Name, op)
		}()
	}
	// WaitingFor pollers
	var pollWG sync.WaitGroup
	stopPoll := int32(0)
	for _, n := range w.Nodes {
		for k := 0; k < 2+rnd(2); k++ {
			n := n
			pollWG.Add(1)
			atomic.AddInt64(&spawned, 1)
			cl := int(atomic.AddInt64(&clientSeq, 1))
			go func() {
				defer pollWG.Done()
				for i := 0; i < 18 && atomic.LoadInt32(&stopPoll) == 0; i++ {
					op := histOp{client: cl, kind: "waiting", call: tick()}
					ps := n.Party.WaitingFor()
					op.ret = tick()
					for _, pid := range ps {
						name := "?"
						for _, c := range w.Nodes {
							if c.PID == pid || (!sim.IsResharing(w.Proto) && c.PID.KeyInt().Cmp(pid.KeyInt()) == 0) {
								name = c.Name
							}
						}
						op.waiting = append(op.waiting, name)
					}
					sort.Strings(op.waiting)
					addOp(n.Name, op)
					time.Sleep(time.Duration(50+rnd(3000)) * time.Microsecond)
				}
			}()
		}
	}
	// wait for completion: every party has emitted a result, or nothing is in flight any more
	deadline := time.Now().Add(time.Duration(60+20*c.Cost) * time.Second)
	allEnded := false
	for time.Now().Before(deadline) {
		cnt := 0
		for _, n := range w.Nodes {
			n.Ended = append(n.Ended, n.DrainEnd()...)
			if len(n.Ended) > 0 {
				cnt++
			}
		}
		if cnt == len(w.Nodes) {
			allEnded = true
			break
		}
		errMu.Lock()
		bad := len(errs) + len(panics)
		errMu.Unlock()
		if bad > 0 {
			break
		}
		time.Sleep(2 * time.Millisecond)
	}
	atomic.StoreInt32(&stopPoll, 1)
	waitCh := make(chan struct{})
	go func() { wg.Wait(); pollWG.Wait(); close(waitCh) }()
	select {
	case <-waitCh:
	case <-time.After(60 * time.Second):
		r.Recycle = true
		r.Fail("c09:call-stuck:"+s.Proto, "%s: an Update/Start/WaitingFor call did not return 60 s after the run stopped making progress", s.desc())
		r.Witness = allStacks()
		close(done)
		return r
	}
	close(done)
	for _, n := range w.Nodes {
		n.Ended = append(n.Ended, n.DrainEnd()...)
	}
	r.Count("goroutines_spawned", atomic.LoadInt64(&spawned))
	r.Count("hook_points_hit", atomic.LoadInt64(&hookHits))
	for name, lo := range lockOrder {
		r.AddSet("lock_orders", name+":"+strings.Join(lo, ">"))
	}
	if dsNode != nil {
		if a, b := atomic.LoadInt64(&dsNil), atomic.LoadInt64(&dsErr); a != 1 || b != 1 {
			r.Fail("c09:double-start:"+s.Proto, "%s: two racing Start() calls on %s: %d succeeded and %d were refused (want 1 and 1)", s.desc(), dsNode.Name, a, b)
			return r
		}
		r.Count("racing_second_starts_refused", 1)
	}
	if len(panics) > 0 {
		r.Fail("c09:panic:"+s.Proto, "%s: %s", s.desc(), strings.Join(panics, " | "))
		return r
	}
	if len(errs) > 0 {
		r.Fail("c09:error:"+s.Proto, "%s: calls returned errors under concurrent delivery: %s", s.desc(), core.Clip(strings.Join(errs, " | "), 500))
		return r
	}
	if !allEnded {
		var stuck []string
		for _, n := range w.Nodes {
			if len(n.Ended) == 0 {
				stuck = append(stuck, fmt.Sprintf("%s(round %d)", n.Name, roundOf(n)))
			}
		}
		r.Recycle = true
		r.Fail("c09:not-finished:"+s.Proto, "%s: every call returned and every message was delivered, but %v never finished", s.desc(), stuck)
		r.Witness = allStacks()
		return r
	}
	s.outcome(&r, w, in, "c09")
	if r.Verdict == core.Violated {
		return r
	}
	r.Count("concurrent_runs_completed", 1)
	// linearizability per party
	for _, n := range w.Nodes {
		verdict := c09Linearizable(w, n, hist[n.Name])
		switch verdict {
		case porcupine.Ok:
			r.Count("histories_linearizable", 1)
		case porcupine.Illegal:
			r.Fail("c09:not-linearizable:"+s.Proto, "%s: the Start/Update/WaitingFor history of %s is not linearizable against the sequential round model (%d operations)", s.desc(), n.Name, len(hist[n.Name]))
			r.Witness = c09HistoryText(hist[n.Name])
		default:
			r.Count("histories_unknown", 1)
		}
		r.Count("history_operations", int64(len(hist[n.Name])))
	}
	if r.Obs["histories_linearizable"] == 0 && r.Verdict == core.Held {
		r.Inconcl("the linearizability checker timed out on every history")
	}
	r.NonTrivial = r.Obs["histories_linearizable"] > 0
	if c.P.Int("run") == 0 {
		r.Sample = map[string]any{"case": c.ID, "goroutines": spawned, "hook_hits": hookHits, "history_ops": r.Obs["history_operations"], "lock_order_example": lockOrder[w.Nodes[0].Name]}
	}
	return r
}

func shortType(full string) string {
	if i := strings.LastIndex(full, "."); i >= 0 {
		return full[i+1:]
	}
	return full
}

func c09HistoryText(ops []histOp) string {
	sort.Slice(ops, func(i, j int) bool { return ops[i].call < ops[j].call })
	var b strings.Builder
	for _, o := range ops {
		fmt.Fprintf(&b, "[%d,%d] c%d %s %s -> ok=%v waiting=%v %s\n", o.call, o.ret, o.client, o.kind, o.key, o.okRet, o.waiting, o.errText)
	}
	return b.String()
}

// c09Expected is the sequential model: what WaitingFor() returns for a party of node n's role given that it has been
// started and the set of messages delivered so far (on the right channel kind).
func c09Expected(w *sim.World, n *sim.Node, delivered map[string]bool) []string {
	final := sim.FinalRound[w.Proto]
	for round := 1; round < final; round++ {
		var missing []string
		seen := map[string]bool{}
		for _, req := range sim.RequiredFrom(w.Proto, n.Group, round) {
			for _, sd := range w.Nodes {
				if sd == n {
					continue
				}
				if !(req.From == "all" || req.From == sd.Group) {
					continue
				}
				if !delivered[req.Short+"<"+sd.Name] && !seen[sd.Name] {
					seen[sd.Name] = true
					missing = append(missing, sd.Name)
				}
			}
		}
		if len(missing) > 0 {
			sort.Strings(missing)
			return missing
		}
	}
	return nil
}

// c09FirstIncomplete is the first round for which a required message is missing (the final round if none is).
func c09FirstIncomplete(w *sim.World, n *sim.Node, delivered map[string]bool) int {
	final := sim.FinalRound[w.Proto]
	for round := 1; round < final; round++ {
		for _, req := range sim.RequiredFrom(w.Proto, n.Group, round) {
			for _, sd := range w.Nodes {
				if sd == n || !(req.From == "all" || req.From == sd.Group) {
					continue
				}
				if !delivered[req.Short+"<"+sd.Name] {
					return round
				}
			}
		}
	}
	return final
}

// c09PassThroughBefore: is there a round without any required input for n's role at or before the first incomplete round?
func c09PassThroughBefore(w *sim.World, n *sim.Node, delivered map[string]bool) bool {
	final := sim.FinalRound[w.Proto]
	for round := 1; round < final; round++ {
		reqs := sim.RequiredFrom(w.Proto, n.Group, round)
		if len(reqs) == 0 {
			return true
		}
		for _, req := range reqs {
			for _, sd := range w.Nodes {
				if sd == n || !(req.From == "all" || req.From == sd.Group) {
					continue
				}
				if !delivered[req.Short+"<"+sd.Name] {
					return false // first incomplete round reached, no pass-through round before it
				}
			}
		}
	}
	return false
}

func c09Linearizable(w *sim.World, n *sim.Node, ops []histOp) porcupine.CheckResult {
	// the awaited set between Start and the first evaluation of the round flags differs per protocol (keygen lists the
	// party itself, signing does not): the model accepts, in that "fresh" state only, either the model set or the model
	// set plus the party itself
	model := porcupine.Model{
		Init: func() interface{} { return c09State{} },
		Step: func(st, in, out interface{}) (bool, interface{}) {
			s := st.(c09State)
			op := in.(histOp)
			switch op.kind {
			case "start":
				if op.errText != "" {
					// a refused Start: legal only for a party that has been started already; it changes nothing
					return s.started, s
				}
				if s.started {
					return false, s // two Start calls on one party cannot both succeed
				}
				s.started = true
				s.fresh = s.delivered == "" // nothing was stored before Start: flags are evaluated at the first update
				return true, s
			case "update":
				if op.flagOK {
					keys := map[string]bool{}
					for _, k := range strings.Split(s.delivered, ",") {
						if k != "" {
							keys[k] = true
						}
					}
					keys[op.key] = true
					l := make([]string, 0, len(keys))
					for k := range keys {
						l = append(l, k)
					}
					sort.Strings(l)
					s.delivered = strings.Join(l, ",")
				}
				if s.started {
					s.fresh = false
				}
				return true, s
			case "waiting":
				if !s.started {
					return len(op.waiting) == 0, s
				}
				del := map[string]bool{}
				for _, k := range strings.Split(s.delivered, ",") {
					if k != "" {
						del[k] = true
					}
				}
				want := c09Expected(w, n, del)
				// Between the Start() of a new round and the evaluation of the messages stored for it, the round's flags are
				// all reset and a concurrent WaitingFor() legitimately sees more parties (possibly including the party itself).
				// What the sequential model fixes is the lower bound: every peer whose required message has not been delivered
				// must be listed; nobody outside the session may be listed; no duplicates.
				if len(op.waiting) == 0 && c09PassThroughBefore(w, n, del) {
					// the party may be observed while it sits in a round that needs no input for its role (it releases the lock
					// between that round's Start and moving on): there it reports that it waits for nobody
					return true, s
				}
				if s.fresh && n.Group == "old" && len(op.waiting) == 0 {
					// an old committee member needs no input in its first round and only moves on at its first update call:
					// until then it reports that it waits for nobody (the sequential code does the same)
					return true, s
				}
				have := map[string]bool{}
				for _, g := range op.waiting {
					if have[g] || g == "?" {
						return false, s
					}
					have[g] = true
				}
				lower := true
				for _, wnt := range want {
					if !have[wnt] {
						lower = false
					}
				}
				if lower {
					return true, s
				}
				// One update can carry the party through several rounds (the messages of the later rounds are already
				// stored); BaseUpdate releases the party lock between those rounds, so a WaitingFor() that runs during such
				// an update can see any of the rounds in between, each with freshly reset flags. If an update that overlaps
				// this call in time can complete a round, any duplicate-free list of session parties is a legitimate answer.
				if len(op.overlap) > 0 {
					without, with := map[string]bool{}, map[string]bool{}
					for k := range del {
						without[k], with[k] = true, true
					}
					for _, k := range op.overlap {
						delete(without, k)
						with[k] = true
					}
					if c09FirstIncomplete(w, n, with) > c09FirstIncomplete(w, n, without) {
						return true, s
					}
				}
				return false, s
			}
			return true, s
		},
		Equal: func(a, b interface{}) bool { return a.(c09State) == b.(c09State) },
		DescribeOperation: func(in, out interface{}) string {
			o := in.(histOp)
			return fmt.Sprintf("%s %s %v", o.kind, o.key, o.waiting)
		},
	}
	for i := range ops {
		if ops[i].kind != "waiting" {
			continue
		}
		for j := range ops {
			if ops[j].kind == "update" && ops[j].flagOK && ops[j].call < ops[i].ret && ops[j].ret > ops[i].call {
				ops[i].overlap = append(ops[i].overlap, ops[j].key)
			}
		}
	}
	var pops []porcupine.Operation
	for _, o := range ops {
		pops = append(pops, porcupine.Operation{ClientId: o.client, Input: o, Output: o, Call: o.call, Return: o.ret})
	}
	res := porcupine.CheckOperationsTimeout(model, pops, 90*time.Second)
	return res
}
