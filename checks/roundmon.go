package checks

import (
	"bytes"
	"fmt"
	"math/big"
	"regexp"
	"sort"
	"strconv"
	"strings"

	"google.golang.org/protobuf/proto"

	"github.com/bnb-chain/tss-lib/v2/tss"

	"verif/core"
	"verif/sim"
)

// roundMon is the online C08 monitor. It is attached to a simulated session and evaluated on every send and
// after every delivery. Everything it knows about the protocol comes from sim.Specs (the protocol description),
// not from the code under test.
type roundMon struct {
	w   *sim.World
	r   *core.Result
	got map[string]map[string]map[string]bool // recipient -> type -> sender -> delivered on the right channel kind
	// number of messages sent per (sender, type, recipient)
	sent        map[string]int
	skipWaiting bool // C07 uses the routing / counting part only
	roundBefore int  // the recipient's round right before the current party call
}

func attachRoundMon(w *sim.World, r *core.Result) *roundMon {
	m := &roundMon{w: w, r: r, got: map[string]map[string]map[string]bool{}, sent: map[string]int{}}
	w.OnSent = append(w.OnSent, m.onSent)
	w.BeforeExec = append(w.BeforeExec, func(ev *sim.Event) { m.roundBefore = roundOf(ev.Node) })
	w.OnReturn = append(w.OnReturn, m.onReturn)
	w.OnDelivered = append(w.OnDelivered, func(ev *sim.Event, ok bool, err *tss.Error) { m.checkWaiting(ev) })
	return m
}

var roundRe = regexp.MustCompile(`round: (\d+)`)

// roundOf reads the party's current round from its String() (0 = not started or finished).
func roundOf(n *sim.Node) int {
	s := fmt.Sprint(n.Party)
	if mm := roundRe.FindStringSubmatch(s); mm != nil {
		v, _ := strconv.Atoi(mm[1])
		return v
	}
	return 0
}

func (m *roundMon) roleNodes(role string, except *sim.Node) []*sim.Node {
	var out []*sim.Node
	for _, n := range m.w.Nodes {
		if n == except {
			continue
		}
		switch role {
		case "all":
			out = append(out, n)
		case "old", "new":
			if n.Group == role {
				out = append(out, n)
			}
		case "old+new":
			out = append(out, n)
		}
	}
	return out
}

func names(ns []*sim.Node) []string {
	var o []string
	for _, n := range ns {
		o = append(o, n.Name)
	}
	sort.Strings(o)
	return o
}

func (m *roundMon) has(recipient *sim.Node, typ string, sender *sim.Node) bool {
	return m.got[recipient.Name][typ][sender.Name]
}

func (m *roundMon) onSent(msg *sim.Msg) {
	r, w := m.r, m.w
	sp := sim.SpecOf(w.Proto, msg.Short)
	r.Count("sends_checked", 1)
	if sp == nil {
		r.Fail("route:unknown-type:"+msg.Short, "%s sent a message type the protocol does not have: %s", msg.From.Name, msg.Type)
		return
	}
	from := msg.From
	if !(sp.From == "all" || sp.From == from.Group) {
		r.Fail("route:wrong-sender-role:"+msg.Short, "%s (%s committee) sent %s", from.Name, from.Group, msg.Short)
	}
	// (c) channel discipline and addressing
	if msg.Bcast != sp.Bcast {
		r.Fail("route:flag:"+msg.Short, "%s sent %s flagged broadcast=%v, protocol says %v", from.Name, msg.Short, msg.Bcast, sp.Bcast)
	}
	want := m.roleNodes(sp.To, from)
	if sp.Bcast {
		if got := names(msg.Recips); strings.Join(got, ",") != strings.Join(names(want), ",") {
			r.Fail("route:recipients:"+msg.Short, "%s: broadcast %s addressed to %v, protocol says %v", from.Name, msg.Short, got, names(want))
		}
		if sim.IsResharing(w.Proto) {
			if msg.ToOld != (sp.To == "old") || msg.ToOldAndNew != (sp.To == "old+new") {
				r.Fail("route:committee-flags:"+msg.Short, "%s: %s has committee flags old=%v old+new=%v, protocol addresses %s", from.Name, msg.Short, msg.ToOld, msg.ToOldAndNew, sp.To)
			}
			if msg.To == nil {
				r.Fail("route:nil-destination:"+msg.Short, "%s: resharing message %s without destination list", from.Name, msg.Short)
			}
		} else if msg.To != nil {
			r.Fail("route:explicit-destination:"+msg.Short, "%s: broadcast %s carries an explicit destination list", from.Name, msg.Short)
		}
	} else {
		if len(msg.To) != 1 || len(msg.Recips) != 1 {
			r.Fail("route:p2p-recipients:"+msg.Short, "%s: secret-bearing %s addressed to %d parties (resolved %d)", from.Name, msg.Short, len(msg.To), len(msg.Recips))
		} else {
			okRole := false
			for _, n := range want {
				if n == msg.Recips[0] {
					okRole = true
				}
			}
			if !okRole || msg.Recips[0] == from {
				r.Fail("route:p2p-wrong-recipient:"+msg.Short, "%s: %s addressed to %s", from.Name, msg.Short, msg.Recips[0].Name)
			}
		}
	}
	// (a) once each per recipient
	for _, rc := range msg.Recips {
		k := from.Name + "|" + msg.Short + "|" + rc.Name
		m.sent[k]++
		if m.sent[k] > 1 {
			r.Fail("route:sent-twice:"+msg.Short, "%s sent %s to %s %d times", from.Name, msg.Short, rc.Name, m.sent[k])
		}
	}
	// (b) a round-r message only after everything rounds < r require has been received
	for rr := 1; rr < sp.Round; rr++ {
		for _, req := range sim.RequiredFrom(w.Proto, from.Group, rr) {
			for _, s := range m.roleNodes(req.From, from) {
				if !m.has(from, req.Short, s) {
					r.Fail("round:early-send:"+msg.Short, "%s sent %s (round %d) before it had received %s from %s (round %d)", from.Name, msg.Short, sp.Round, req.Short, s.Name, rr)
				}
			}
		}
	}
	// (e) wire encoding round trip
	if pm, ok := msg.Orig.(tss.ParsedMessage); ok {
		back, err := tss.ParseWireMessage(msg.Wire, from.PID, msg.Bcast)
		if err != nil {
			r.Fail("wire:unparseable:"+msg.Short, "own wire bytes of %s do not parse: %v", msg.Short, err)
		} else {
			if back.Type() != msg.Type {
				r.Fail("wire:type:"+msg.Short, "wire round trip changed the type: %s -> %s", msg.Type, back.Type())
			}
			if !proto.Equal(back.Content(), pm.Content()) {
				r.Fail("wire:content:"+msg.Short, "wire round trip changed the content of %s", msg.Short)
			}
			if !back.ValidateBasic() {
				r.Fail("wire:validate:"+msg.Short, "own message %s fails ValidateBasic after the wire round trip", msg.Short)
			}
			r.Count("wire_roundtrips", 1)
		}
	}
}

// onReturn records a delivery before the messages it triggered are looked at. A delivery counts if the call accepted it,
// it came on the channel kind its type demands, and it was not stale (its round not already behind the recipient).
func (m *roundMon) onReturn(ev *sim.Event, ok bool, err *tss.Error) {
	if ev.Kind != sim.EvDeliver {
		return
	}
	sp := sim.SpecOf(m.w.Proto, ev.Msg.Short)
	to := ev.Node
	if sp == nil || !ok || ev.Tag == "flipdup" {
		return // "flipdup": a wrong-channel copy of a message whose sender is no longer awaited; it must not count for anything
	}
	if m.roundBefore == 0 || m.roundBefore <= sp.Round {
		if m.got[to.Name] == nil {
			m.got[to.Name] = map[string]map[string]bool{}
		}
		if m.got[to.Name][ev.Msg.Short] == nil {
			m.got[to.Name][ev.Msg.Short] = map[string]bool{}
		}
		m.got[to.Name][ev.Msg.Short][ev.Msg.From.Name] = ev.Bcast == sp.Bcast
	}
}

// checkWaiting is (g): after every update of a started, unfinished party, WaitingFor() must be exactly the peers from
// whom a message required by the current round has not been delivered.
func (m *roundMon) checkWaiting(ev *sim.Event) {
	if m.skipWaiting {
		return
	}
	n := ev.Node
	if !n.Started || len(n.Ended) > 0 || n.StartErr != nil || len(n.Errors) > 0 {
		return
	}
	cur := roundOf(n)
	if cur == 0 {
		return
	}
	if ev.Kind == sim.EvStart {
		return // the property speaks about the state after an update; right after Start the per-round flags are not evaluated yet
	}
	want := map[string]bool{}
	for _, req := range sim.RequiredFrom(m.w.Proto, n.Group, cur) {
		for _, s := range m.roleNodes(req.From, n) {
			if !m.has(n, req.Short, s) {
				want[s.Name] = true
			}
		}
	}
	got := map[string]bool{}
	for _, pid := range n.Party.WaitingFor() {
		grp := ""
		nd := m.w.NodeByKey(grp, pid)
		if sim.IsResharing(m.w.Proto) {
			// the same key cannot be in both committees (property scope); find by pointer identity first
			for _, c := range m.w.Nodes {
				if c.PID == pid {
					nd = c
				}
			}
		}
		if nd == nil {
			m.r.Fail("waiting:unknown-party", "%s.WaitingFor() names an unknown party %v", n.Name, pid)
			continue
		}
		got[nd.Name] = true
	}
	m.r.Count("waitingfor_checked", 1)
	var extra, missing []string
	for k := range got {
		if !want[k] {
			extra = append(extra, k)
		}
	}
	for k := range want {
		if !got[k] {
			missing = append(missing, k)
		}
	}
	if len(extra)+len(missing) > 0 {
		sort.Strings(extra)
		sort.Strings(missing)
		m.r.Fail(fmt.Sprintf("waiting:%s:round%d", m.w.Proto, cur), "after %s: %s (round %d) reports WaitingFor with extra %v / missing %v relative to the messages still undelivered", ev, n.Name, cur, extra, missing)
	}
}

// finish is (a) at the end of a completed run: exactly the prescribed types, once per recipient.
func (m *roundMon) finish() {
	w := m.w
	for _, n := range w.Nodes {
		if len(n.Ended) == 0 {
			continue
		}
		for _, sp := range sim.Specs[w.Proto] {
			if !(sp.From == "all" || sp.From == n.Group) {
				continue
			}
			for _, rc := range m.roleNodes(sp.To, n) {
				k := n.Name + "|" + sp.Short + "|" + rc.Name
				if m.sent[k] != 1 {
					m.r.Fail("route:count:"+sp.Short, "%s finished having sent %s to %s %d times (protocol: once)", n.Name, sp.Short, rc.Name, m.sent[k])
				}
			}
		}
	}
}

// leakScan is (f): none of the sender's long-term secrets appears in its outgoing wire bytes.
func leakScan(r *core.Result, w *sim.World, secrets map[string]map[string]*big.Int) {
	for _, msg := range w.Msgs {
		for name, v := range secrets[msg.From.Name] {
			if v == nil {
				continue
			}
			b := v.Bytes()
			if len(b) < 16 {
				continue
			}
			r.Count("leak_scans", 1)
			if bytes.Contains(msg.Wire, b) {
				r.Fail("leak:"+msg.Short+":"+name, "%s: outgoing %s contains the sender's %s", msg.From.Name, msg.Short, name)
			}
		}
	}
}
