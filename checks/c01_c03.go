package checks

import (
	"crypto/sha512"
	"encoding/binary"
	"fmt"
	"io"
	"math/big"
	"strings"
	"sync"

	"github.com/bnb-chain/tss-lib/v2/common"

	ecdsakeygen "github.com/bnb-chain/tss-lib/v2/ecdsa/keygen"
	eddsakeygen "github.com/bnb-chain/tss-lib/v2/eddsa/keygen"
	"github.com/bnb-chain/tss-lib/v2/tss"

	"verif/core"
	"verif/ref"
	"verif/sim"
)

// C01 — ECDSA signing yields one valid canonical signature.
// C02 — EdDSA signing yields one valid standard Ed25519 signature.
// C03 — keygen yields a consistent (t,n) sharing of one key.

func init() {
	core.Register(&core.Check{
		ID:    "C01",
		Level: "exploration",
		Rule: "keys: fresh distributed keygens made in this run ((3,1),(5,2) quick; all (n,t) n<=5 thorough) + the vendored 5-party key; signer sets of every size t+1..n (first/last/non-contiguous subsets, ids supplied shuffled); digests {0,1,q-1,2^248-1,2^8,seeded}; refused digests {q,q+1,2^256-1}; " +
			"fullBytesLen {absent,32,33,64}; schedules FIFO/LIFO/seeded-random; forced-s sessions (reproducible per-signer randomness, digest solved for so that the un-normalised s hits {half, half+-1, 1, q-1, 2^255, values with leading zero bytes}). Every finished session goes through the reference ECDSA verifier, btcec's verifier, public-key recovery and the canonical-form checks. Class = (key, signer set, digest class, fullBytesLen, scheduler); non-trivial when a signature (or a refusal for digest>=q) was observed.",
		Assumptions: []string{"reference secp256k1/ECDSA code in ref/ (known-answer tested)", "r >= q (recovery bit 1) has probability 2^-128 and is not reachable"},
		Gen:         c01Gen,
		Run:         c01Run,
		MinEvents:   []string{"signatures_verified", "refusals_observed"},
	})
	core.Register(&core.Check{
		ID:    "C02",
		Level: "exploration",
		Rule: "keys: fresh EdDSA keygens ((2,1),(3,1),(3,2),(5,2) quick; all (n,t) n<=6 thorough); signer sets t+1..n; messages {0 (empty), 1, 2^8, 32-byte, 100-byte, leading-zero values} with fullBytesLen {absent,32,64,100}; schedules FIFO/LIFO/random. " +
			"Every finished session is verified by Go's crypto/ed25519 under the RFC 8032 encoding of the group key computed by the harness, over exactly the echoed bytes, and by the reference group equation. Class = (key, signer set, message class, fullBytesLen, scheduler).",
		Assumptions: []string{"crypto/ed25519 (Go stdlib) as the independent standard verifier"},
		Gen:         c02Gen,
		Run:         c02Run,
		MinEvents:   []string{"signatures_verified"},
	})
	core.Register(&core.Check{
		ID:    "C03",
		Level: "exploration",
		Rule: "ECDSA keygen for (n,t) in {(2,1),(3,2),(5,2)} (quick) / all 1<=t<n<=5 (thorough) and EdDSA keygen for all 1<=t<n<=5 (quick) / <=6 (thorough), party-key sets {small, large, near q, >=q, seeded}, schedules FIFO/LIFO/random/future-first; " +
			"oracle: identical public view at all parties, Xi*G = BigXj[i], every (t+1)-subset interpolates (in the exponent and on the secrets) to the one key, degree <= t, public key = sum of the first Feldman commitments seen on the wire, Paillier private keys match the recorded moduli. Class = (curve,n,t,key pattern,scheduler).",
		Assumptions: []string{"conditional on completion: a keygen that refuses a key set is not a violation of this property"},
		Gen:         c03Gen,
		Run:         c03Run,
		MinEvents:   []string{"keygens_completed", "subsets_interpolated", "wire_commitments_summed"},
	})
}

// ---------------------------------------------------------------- C03

func c03Gen(tier string, seed int64) []core.Case {
	var cs []core.Case
	scheds := []string{"fifo", "lifo", "random", "future"}
	pats := []string{"small", "large", "nearq", "seeded", "geq"}
	if tier == "thorough" {
		pats = append(pats, "huge", "geP", "congruent")
	}
	k := 0
	seen := map[string]bool{}
	add := func(curve string, n, t int, pat, sch string, cost float64) {
		id := fmt.Sprintf("%s/n%d-t%d/%s/%s", curve, n, t, pat, sch)
		if seen[id] {
			return
		}
		seen[id] = true
		cs = append(cs, core.Case{ID: id, Class: id, Kind: "keygen", Cost: cost, P: core.P{"curve": curve, "n": n, "t": t, "pat": pat, "sched": sch}})
	}
	if tier == "thorough" {
		for n := 2; n <= 5; n++ {
			for t := 1; t < n; t++ {
				for pi, pat := range pats {
					add("secp256k1", n, t, pat, scheds[(pi+n+t)%len(scheds)], 2.5*float64(n))
				}
			}
		}
	} else {
		add("secp256k1", 2, 1, "small", "lifo", 4)
		add("secp256k1", 3, 2, "nearq", "random", 6)
		add("secp256k1", 5, 2, "seeded", "fifo", 12)
		add("secp256k1", 3, 1, "geq", "future", 6)
		add("secp256k1", 3, 1, "huge", "fifo", 6)
		add("secp256k1", 2, 1, "geP", "fifo", 4)
		add("secp256k1", 3, 1, "congruent", "fifo", 6)
	}
	for _, pat := range []string{"huge", "geP", "congruent"} {
		add("ed25519", 3, 1, pat, "fifo", 1)
		add("ed25519", 4, 2, pat, "random", 1)
	}
	maxN := tierN(tier, 5, 6)
	for n := 2; n <= maxN; n++ {
		for t := 1; t < n; t++ {
			for pi, pat := range pats {
				for si, sch := range scheds {
					if tier != "thorough" && (pi+si+n+t+k)%3 != 0 {
						continue
					}
					add("ed25519", n, t, pat, sch, 0.3*float64(n))
				}
			}
			k++
		}
	}
	cs = runVariants(cs, 9, "keygen")
	{
		sc := sessCfg{"eddsa-keygen", 2, 1, nil, 0, 0, "small", 0.5}
		p := sc.P()
		p["max"] = 1500
		id := "short-encodings/eddsa-keygen/until-every-32-byte-field-was-sent-with-a-leading-zero-byte"
		cs = append(cs, core.Case{ID: id, Class: id, Kind: "short-fields", P: p, Cost: 40})
	}
	return cs
}

// captureFirstCommitments hooks the wire: V_i0 is the first point of party i's round-2 decommitment.
func captureFirstCommitments(w *sim.World) map[string]ref.Pt {
	got := map[string]ref.Pt{}
	w.OnSent = append(w.OnSent, func(m *sim.Msg) {
		pm, ok := m.Orig.(tss.ParsedMessage)
		if !ok {
			return
		}
		var d []*big.Int
		switch c := pm.Content().(type) {
		case *ecdsakeygen.KGRound2Message2:
			d = c.UnmarshalDeCommitment()
		case *eddsakeygen.KGRound2Message2:
			d = c.UnmarshalDeCommitment()
		}
		if len(d) >= 3 {
			got[m.From.Name] = ref.Pt{X: d[1], Y: d[2]}
		}
	})
	return got
}

func noteRun(r *core.Result, w *sim.World) {
	r.Count("steps", int64(len(w.Steps)))
	r.Count("messages", int64(len(w.Msgs)))
	r.AddSet("schedules", w.InboxHash())
}

func errorsOf(w *sim.World) []string {
	var out []string
	for _, n := range w.Nodes {
		if n.StartErr != nil {
			out = append(out, n.Name+" Start: "+n.StartErr.Error())
		}
		for _, e := range n.Errors {
			out = append(out, n.Name+": "+e.Error())
		}
	}
	return out
}

func c03Run(c core.Case, env *core.Env) core.Result {
	r := res(c)
	if c.Kind == "short-fields" {
		shortFieldsRun(&r, env, c.P, c.P.Int("max"))
		return r
	}
	curve, n, t := c.P.Str("curve"), c.P.Int("n"), c.P.Int("t")
	ids := keyIDs(c.P.Str("pat"), n, curve, env.Seed)
	defer setDefaultCurve(c.P, curve)()
	var w *sim.World
	if isEd(curve) {
		w = sim.EDDSAKeygen(env.Seed+int64(len(c.ID)), ids, t)
		w.ShareObjects = c.P.Bool("objects")
	} else {
		pre, err := PreParams(env.Repo)
		if err != nil {
			r.Inconcl("fixtures: %v", err)
			return r
		}
		w = sim.ECDSAKeygen(env.Seed+int64(len(c.ID)), ids, t, pre[:n])
		w.ShareObjects = c.P.Bool("objects")
	}
	commits := captureFirstCommitments(w)
	w.Run(schedByName(c.P.Str("sched"), w), nil)
	noteRun(&r, w)
	views, missing := viewsOf(w, "")
	if errs := errorsOf(w); len(errs) > 0 && c.P.Str("pat") == "congruent" {
		// two ids congruent modulo the group order are not an admissible key set: refusing it is the right answer
		r.Count("inadmissible_ids_refused", 1)
		r.Count("keygens_completed", 0)
		r.NonTrivial = true
		return r
	}
	if errs := errorsOf(w); len(errs) > 0 {
		// conditional property: a refusal is not a violation, but an error between honest parties on admissible ids is
		r.Fail("keygen:honest-error", "honest keygen reported errors: %s", core.Clip(strings.Join(errs, " | "), 600))
		r.Witness = strings.Join(w.Trace(200), "\n")
		return r
	}
	if len(missing) > 0 {
		r.Fail("keygen:not-finished", "all messages delivered, parties %v never finished", missing)
		r.Witness = strings.Join(w.Trace(200), "\n")
		return r
	}
	for _, nd := range w.Nodes {
		if len(nd.Ended) != 1 {
			r.Fail("keygen:ended-count", "%s emitted %d results", nd.Name, len(nd.Ended))
		}
	}
	r.Count("keygens_completed", 1)
	// party keys in sorted (index) order
	pk := make([]*big.Int, n)
	for i, nd := range w.Nodes {
		pk[i] = nd.PID.KeyInt()
	}
	var fc []ref.Pt
	for _, nd := range w.Nodes {
		p, ok := commits[nd.Name]
		if !ok {
			r.Fail("keygen:no-decommit-seen", "no round-2 decommitment observed on the wire for %s", nd.Name)
			return r
		}
		fc = append(fc, p)
	}
	keySharingOracle(&r, curve, t, views, pk, nil, fc, !isEd(curve))
	r.NonTrivial = r.Obs["subsets_interpolated"] > 0
	if r.Verdict == core.Violated {
		r.Witness = strings.Join(w.Trace(120), "\n")
	}
	if n == 3 {
		r.Sample = map[string]any{"case": c.ID, "party_keys": []string{hx(pk[0]), hx(pk[1]), hx(pk[2])}, "steps": len(w.Steps), "messages": len(w.Msgs), "pub_x": hx(views[0].Pub.X())}
	}
	return r
}

// ---------------------------------------------------------------- C01

type signCase struct {
	key     string // "fresh-n-t" or "vendored"
	n, t    int
	signers []int
}

func digestOf(class string, seed int64, label string) *big.Int {
	q := ref.SecpN
	switch class {
	case "0":
		return big.NewInt(0)
	case "1":
		return big.NewInt(1)
	case "q-1":
		return new(big.Int).Sub(q, big1)
	case "2^248-1":
		return new(big.Int).Sub(new(big.Int).Lsh(big1, 248), big1)
	case "2^8":
		return big.NewInt(256)
	case "q":
		return new(big.Int).Set(q)
	case "q+1":
		return new(big.Int).Add(q, big1)
	case "2^256-1":
		return new(big.Int).Sub(new(big.Int).Lsh(big1, 256), big1)
	}
	return randBig(rng(seed, "digest/"+label), q)
}

func signerSets(n, t int) [][]int {
	var out [][]int
	seen := map[string]bool{}
	add := func(s []int) {
		k := fmt.Sprint(s)
		if !seen[k] && len(s) >= t+1 && len(s) <= n {
			seen[k] = true
			out = append(out, s)
		}
	}
	for size := t + 1; size <= n; size++ {
		first := make([]int, size)
		last := make([]int, size)
		for i := 0; i < size; i++ {
			first[i] = i
			last[i] = n - size + i
		}
		add(first)
		add(last)
		// non-contiguous: spread
		var nc []int
		for i := 0; i < size; i++ {
			nc = append(nc, (i*(n-1))/max(size-1, 1))
		}
		ok := true
		for i := 1; i < len(nc); i++ {
			if nc[i] == nc[i-1] {
				ok = false
			}
		}
		if ok {
			add(nc)
		}
	}
	return out
}

func max(a, b int) int {
	if a > b {
		return a
	}
	return b
}

func c01Gen(tier string, seed int64) []core.Case {
	var cs []core.Case
	type kd struct {
		name string
		n, t int
	}
	keys := []kd{{"fresh", 3, 1}, {"fresh", 5, 2}, {"vendored", 5, 2}}
	if tier == "thorough" {
		keys = nil
		for n := 2; n <= 5; n++ {
			for t := 1; t < n; t++ {
				keys = append(keys, kd{"fresh", n, t})
			}
		}
		keys = append(keys, kd{"vendored", 5, 2})
	}
	digests := []string{"0", "1", "q-1", "2^248-1", "2^8", "seeded-a", "seeded-b", "seeded-c"}
	refused := []string{"q", "q+1", "2^256-1"}
	fulls := []int{0, 32, 0, 32, 0, 32, 33, 0, 32, 64}
	scheds := []string{"fifo", "lifo", "random", "starts-random"}
	k := 0
	for _, kk := range keys {
		for _, set := range signerSets(kk.n, kk.t) {
			nd := 2
			if tier == "thorough" {
				nd = len(digests)
			}
			for j := 0; j < nd; j++ {
				d := digests[(k+j*3)%len(digests)]
				fl := fulls[(k+j)%len(fulls)]
				sch := scheds[(k+j)%len(scheds)]
				id := fmt.Sprintf("%s-n%d-t%d/signers=%v/digest=%s/full=%d/%s", kk.name, kk.n, kk.t, set, d, fl, sch)
				cs = append(cs, core.Case{ID: id, Class: id, Kind: "sign", Cost: 0.4 * float64(len(set)),
					P: core.P{"key": kk.name, "n": kk.n, "t": kk.t, "signers": set, "digest": d, "full": fl, "sched": sch, "shuffle": (k+j)%2 == 0}})
			}
			if k < len(forcedS) || tier == "thorough" {
				tg := forcedS[k%len(forcedS)]
				id := fmt.Sprintf("%s-n%d-t%d/signers=%v/forced-s=%s", kk.name, kk.n, kk.t, set, tg)
				cs = append(cs, core.Case{ID: id, Class: id, Kind: "forced-s", Cost: 0.8 * float64(len(set)),
					P: core.P{"key": kk.name, "n": kk.n, "t": kk.t, "signers": set, "target": tg, "sched": "fifo"}})
			}
			d := refused[k%len(refused)]
			id := fmt.Sprintf("%s-n%d-t%d/signers=%v/refused=%s", kk.name, kk.n, kk.t, set, d)
			cs = append(cs, core.Case{ID: id, Class: id, Kind: "refuse", Cost: 0.2,
				P: core.P{"key": kk.name, "n": kk.n, "t": kk.t, "signers": set, "digest": d, "full": fulls[k%len(fulls)], "sched": "fifo"}})
			k++
		}
	}
	cs = runVariants(cs, 7, "sign")
	{
		id := "fresh-n3-t1/signers=[0 2]/forced-s-series-with-padded-results-kept"
		cs = append(cs, core.Case{ID: id, Class: id, Kind: "forced-s-series", Cost: 8,
			P: core.P{"key": "fresh", "n": 3, "t": 1, "signers": []int{0, 2}, "sched": "fifo"}})
	}
	if tier == "thorough" {
		sc := sessCfg{"ecdsa-signing", 3, 1, []int{0, 2}, 0, 0, "seeded", 0.8}
		p := sc.P()
		p["max"] = 250
		id := "short-encodings/ecdsa-signing/250-sessions-with-reproducible-randomness"
		cs = append(cs, core.Case{ID: id, Class: id, Kind: "short-fields", P: p, Cost: 250})
	}
	return cs
}

// forcedS names the values the un-normalised sum of the signature shares is steered to (see c01ForcedS).
var forcedS = []string{"0080..01", "00ff..ff", "half", "half+1", "half-1", "1", "q-1", "2^255", "q-5", "0000..80..", "2^248", "q-2^247"}

func forcedSValue(name string) *big.Int {
	q := ref.SecpN
	half := new(big.Int).Rsh(q, 1)
	switch name {
	case "0080..01":
		v := new(big.Int).Lsh(big.NewInt(0x80), 240)
		return v.Add(v, big.NewInt(0x0c01))
	case "00ff..ff":
		return new(big.Int).Sub(new(big.Int).Lsh(big1, 248), big1)
	case "half":
		return half
	case "half+1":
		return new(big.Int).Add(half, big1)
	case "half-1":
		return new(big.Int).Sub(half, big1)
	case "1":
		return big.NewInt(1)
	case "q-1":
		return new(big.Int).Sub(q, big1)
	case "2^255":
		return new(big.Int).Lsh(big1, 255)
	case "q-5":
		return new(big.Int).Sub(q, big.NewInt(5))
	case "0000..80..":
		return new(big.Int).Lsh(big.NewInt(0x80), 232)
	case "2^248":
		return new(big.Int).Lsh(big1, 248)
	case "q-2^247":
		return new(big.Int).Sub(q, new(big.Int).Lsh(big1, 247))
	}
	return big.NewInt(2)
}

// detReader is a deterministic, goroutine-safe byte stream (SHA-512 in counter mode).
type detReader struct {
	mu   sync.Mutex
	seed []byte
	ctr  uint64
	buf  []byte
}

func (d *detReader) Read(p []byte) (int, error) {
	d.mu.Lock()
	defer d.mu.Unlock()
	for i := range p {
		if len(d.buf) == 0 {
			h := sha512.New()
			h.Write(d.seed)
			var c [8]byte
			binary.BigEndian.PutUint64(c[:], d.ctr)
			d.ctr++
			h.Write(c[:])
			d.buf = h.Sum(nil)
		}
		p[i] = d.buf[0]
		d.buf = d.buf[1:]
	}
	return len(p), nil
}

// rawS sums the signature shares s_i that the parties broadcast in the last round: the value before the low-S rule.
func rawS(w *sim.World) (*big.Int, int) {
	sum := new(big.Int)
	seen := map[string]bool{}
	for _, m := range w.Msgs {
		if m.Short != "SignRound9Message" || seen[m.From.Name] {
			continue
		}
		if vs, err := sim.GetField(m.Wire, "s"); err == nil && len(vs) == 1 {
			seen[m.From.Name] = true
			sum.Add(sum, new(big.Int).SetBytes(vs[0]))
		}
	}
	return sum.Mod(sum, ref.SecpN), len(seen)
}

// c01ForcedS steers the un-normalised s to a chosen value. In this protocol s = k*(m + r*x) with k the sum of the k_i each
// signer draws first thing in round 1: with a reproducible randomness source per signer, k and R repeat when the same
// signers sign another digest; one run with a throw-away digest reveals k (the harness knows x from the shares and reads
// the s_i off the wire), then m* = s*/k - r*x makes the second run produce exactly s*. Decides the low-S rule and the
// fixed-width encoding on the boundary values that random signing reaches once in 2^8 .. 2^255 sessions.
func c01ForcedS(r *core.Result, c core.Case, env *core.Env, sel []ecdsakeygen.LocalPartySaveData, t int, pub ref.Pt) {
	q := ref.SecpN
	ids := make([]*big.Int, len(sel))
	xs := make([]*big.Int, len(sel))
	for i := range sel {
		ids[i], xs[i] = sel[i].ShareID, sel[i].Xi
	}
	x := ref.InterpolateAt(ids[:t+1], xs[:t+1], new(big.Int), q)
	if !ref.SecpBaseMul(x).Eq(pub) {
		r.Inconcl("harness could not reconstruct the private key from the shares (C03's business)")
		return
	}
	mkRand := func(i int) io.Reader {
		return &detReader{seed: []byte(fmt.Sprintf("%d/%s/%d", env.Seed, c.ID, i))}
	}
	run := func(m *big.Int) (*sim.World, []*common.SignatureData, bool) {
		w := sim.ECDSASigning(env.Seed+int64(len(c.ID)), sel, t, m, sim.SignOpts{Rand: mkRand})
		w.Run(sim.StartsThen(sim.FIFO), nil)
		outs, missing := sigOuts(w)
		if errs := errorsOf(w); len(errs) > 0 || len(missing) > 0 {
			r.Fail("sign:honest-error", "honest signing (reproducible randomness) failed: %s %v", core.Clip(strings.Join(errs, " | "), 400), missing)
			return w, nil, false
		}
		return w, outs, true
	}
	m1 := digestOf("seeded-a", env.Seed, c.ID)
	w1, outs1, ok := run(m1)
	if !ok {
		return
	}
	s1, cnt := rawS(w1)
	if cnt != len(sel) {
		r.Inconcl("could not read all signature shares off the wire (%d of %d)", cnt, len(sel))
		return
	}
	rr := new(big.Int).SetBytes(outs1[0].R)
	den := new(big.Int).Mul(rr, x)
	den.Add(den, m1).Mod(den, q)
	if den.Sign() == 0 || s1.Sign() == 0 {
		r.Inconcl("degenerate first run")
		return
	}
	k := new(big.Int).Mul(s1, new(big.Int).ModInverse(den, q))
	k.Mod(k, q)
	target := forcedSValue(c.P.Str("target"))
	mStar := new(big.Int).Mul(target, new(big.Int).ModInverse(k, q))
	mStar.Sub(mStar, new(big.Int).Mul(rr, x)).Mod(mStar, q)
	w2, outs2, ok := run(mStar)
	if !ok {
		return
	}
	noteRun(r, w2)
	s2, _ := rawS(w2)
	if new(big.Int).SetBytes(outs2[0].R).Cmp(rr) != 0 || s2.Cmp(target) != 0 {
		r.Inconcl("the nonce did not repeat under the reproducible randomness source (R equal: %v); the steering could not be applied", new(big.Int).SetBytes(outs2[0].R).Cmp(rr) == 0)
		return
	}
	r.Count("forced_s_reached", 1)
	r.AddSet("forced_s_targets", c.P.Str("target"))
	half := new(big.Int).Rsh(q, 1)
	want := new(big.Int).Set(target)
	flipped := false
	if want.Cmp(half) > 0 {
		want.Sub(q, want)
		flipped = true
	}
	for _, o := range outs2 {
		if len(o.S) != 32 || new(big.Int).SetBytes(o.S).Cmp(want) != 0 {
			r.Fail("sig:forced-s:"+c.P.Str("target"), "shares sum to s=%s (flip expected: %v): the emitted S is %x, want %s as 32 bytes", hx(target), flipped, o.S, hx(want))
			break
		}
	}
	ecdsaSigOracle(r, pub, mStar, 0, outs2)
	r.NonTrivial = true
	r.Sample = map[string]any{"case": c.ID, "raw_s": hx(target), "emitted_s": fmt.Sprintf("%x", outs2[0].S), "flipped": flipped}
}

func c01Run(c core.Case, env *core.Env) core.Result {
	r := res(c)
	n, t := c.P.Int("n"), c.P.Int("t")
	pattern := "seeded"
	if c.P.Str("key") == "vendored" {
		pattern = "vendored"
	}
	keys, err := ECDSAKey(env, n, t, pattern)
	if err != nil {
		r.Inconcl("key setup failed: %v", err)
		return r
	}
	var sel []ecdsakeygen.LocalPartySaveData
	for _, i := range c.P.Ints("signers") {
		sel = append(sel, keys[i])
	}
	pub := refPt(keys[0].ECDSAPub)
	if c.Kind == "short-fields" {
		shortFieldsRun(&r, env, c.P, c.P.Int("max"))
		return r
	}
	if c.Kind == "forced-s" {
		c01ForcedS(&r, c, env, sel, t, pub)
		return r
	}
	if c.Kind == "forced-s-series" {
		// several sessions in one process whose S needs one, one and two bytes of padding; every delivered result is kept
		// and looked at again after the later sessions (retainAndRecheck in the signature oracle)
		for _, tg := range []string{"0080..01", "00ff..ff", "0000..80..", "2^248", "0080..01"} {
			cc := c
			cc.ID = c.ID + "/" + tg
			cc.P = core.P{}
			for k, v := range c.P {
				cc.P[k] = v
			}
			cc.P["target"] = tg
			c01ForcedS(&r, cc, env, sel, t, pub)
			if r.Verdict != core.Held {
				break
			}
		}
		retainAndRecheck(&r, "sig", nil)
		return r
	}
	digest := digestOf(c.P.Str("digest"), env.Seed, c.ID)
	full := c.P.Int("full")
	before := snapshotECDSA(sel)
	defer setDefaultCurve(c.P, "secp256k1")()
	w := sim.ECDSASigning(env.Seed+int64(len(c.ID)), sel, t, digest, sim.SignOpts{FullBytesLen: full, Shuffle: c.P.Bool("shuffle"), PartyCount: c.P.Int("pcount")})
	w.ShareObjects = c.P.Bool("objects")
	w.Run(schedByName(c.P.Str("sched"), w), nil)
	noteRun(&r, w)
	outs, missing := sigOuts(w)
	if c.Kind == "refuse" {
		for _, nd := range w.Nodes {
			if nd.StartErr == nil {
				r.Fail("sign:digest-not-refused", "%s: Start accepted a digest >= q (%s)", nd.Name, c.P.Str("digest"))
			}
		}
		if len(w.Msgs) != 0 {
			r.Fail("sign:sent-before-refusal", "%d messages were sent although the digest is not below q", len(w.Msgs))
		}
		if len(outs) != 0 {
			r.Fail("sign:result-for-bad-digest", "a signature was emitted for a digest >= q")
		}
		r.Count("refusals_observed", 1)
		r.NonTrivial = true
		return r
	}
	errs := errorsOf(w)
	if full > 32 && len(errs) > 0 && len(outs) == 0 {
		// a digest is < q < 2^256: a padded length above 32 bytes is outside what the ECDSA finalisation can echo
		// and verify; the library refuses at the end instead of emitting a signature. Recorded, not a violation.
		r.Count("oversized_fullbyteslen_refused", 1)
		r.NonTrivial = true
		return r
	}
	if len(errs) > 0 {
		r.Fail("sign:honest-error", "honest signing reported errors: %s", core.Clip(strings.Join(errs, " | "), 600))
		r.Witness = strings.Join(w.Trace(200), "\n")
		return r
	}
	if len(missing) > 0 {
		r.Fail("sign:not-finished", "all messages delivered, signers %v never finished", missing)
		r.Witness = strings.Join(w.Trace(300), "\n")
		return r
	}
	for _, nd := range w.Nodes {
		if len(nd.Ended) != 1 {
			r.Fail("sign:ended-count", "%s emitted %d results", nd.Name, len(nd.Ended))
		}
	}
	ecdsaSigOracle(&r, pub, digest, full, outs)
	if d := diffECDSA(before, sel); d != "" {
		r.Fail("sign:key-modified", "stored key data changed during signing: %s", d)
	}
	if r.Verdict != core.Violated && len(c.ID)%5 == 0 && full <= 32 {
		d2 := new(big.Int).Mod(new(big.Int).Add(digest, big1), ref.SecpN)
		w2 := sim.ECDSASigning(env.Seed+1, sel, t, d2, sim.SignOpts{})
		w2.Run(sim.StartsThen(sim.FIFO), nil)
		outs2, missing2 := sigOuts(w2)
		if errs := errorsOf(w2); len(errs) > 0 || len(missing2) > 0 {
			r.Fail("sign:second-session-failed", "a second signing session with the same in-memory key failed: %s %v", core.Clip(strings.Join(errs, " | "), 300), missing2)
		} else {
			ecdsaSigOracle(&r, pub, d2, 0, outs2)
			r.Count("second_sessions", 1)
		}
	}
	if len(outs) > 0 {
		s := new(big.Int).SetBytes(outs[0].S)
		_ = s
	}
	r.NonTrivial = r.Obs["signatures_verified"] > 0
	if r.Verdict == core.Violated {
		r.Witness = strings.Join(w.Trace(120), "\n")
	}
	if len(outs) > 0 && c.P.Str("digest") == "q-1" {
		r.Sample = map[string]any{"case": c.ID, "R": fmt.Sprintf("%x", outs[0].R), "S": fmt.Sprintf("%x", outs[0].S), "recid": outs[0].SignatureRecovery, "M": fmt.Sprintf("%x", outs[0].M), "steps": len(w.Steps)}
	}
	return r
}

// ---------------------------------------------------------------- C02

func edMessage(class string, seed int64, label string) *big.Int {
	rg := rng(seed, "edmsg/"+label)
	switch class {
	case "0":
		return big.NewInt(0)
	case "1":
		return big.NewInt(1)
	case "2^8":
		return big.NewInt(256)
	case "32b":
		v := randBits(rg, 255)
		return v.SetBit(v, 255, 1)
	case "32b-lz": // a 32-byte value whose top byte is zero
		return randBits(rg, 247)
	case "100b":
		v := randBits(rg, 799)
		return v.SetBit(v, 799, 1)
	case "100b-lz":
		return randBits(rg, 780)
	}
	return randBits(rg, 200)
}

func c02Gen(tier string, seed int64) []core.Case {
	var cs []core.Case
	type kd struct{ n, t int }
	keys := []kd{{2, 1}, {3, 1}, {3, 2}, {5, 2}}
	if tier == "thorough" {
		keys = nil
		for n := 2; n <= 6; n++ {
			for t := 1; t < n; t++ {
				keys = append(keys, kd{n, t})
			}
		}
	}
	type mc struct {
		class string
		fulls []int
	}
	msgs := []mc{{"0", []int{0, 32}}, {"1", []int{0, 32, 64}}, {"2^8", []int{0, 32}}, {"32b", []int{0, 32, 64}}, {"32b-lz", []int{0, 32, 100}},
		{"100b", []int{0, 100}}, {"100b-lz", []int{0, 100}}, {"seeded", []int{0, 32}}}
	scheds := []string{"fifo", "lifo", "random", "starts-random"}
	k := 0
	for _, kk := range keys {
		for _, set := range signerSets(kk.n, kk.t) {
			for mi, m := range msgs {
				for fi, fl := range m.fulls {
					if tier != "thorough" && (k+mi+fi)%3 != 0 {
						continue
					}
					sch := scheds[(k+mi+fi)%len(scheds)]
					id := fmt.Sprintf("n%d-t%d/signers=%v/msg=%s/full=%d/%s", kk.n, kk.t, set, m.class, fl, sch)
					cs = append(cs, core.Case{ID: id, Class: id, Kind: "sign", Cost: 0.3 * float64(len(set)),
						P: core.P{"n": kk.n, "t": kk.t, "signers": set, "msg": m.class, "full": fl, "sched": sch, "shuffle": (k+mi)%2 == 0}})
				}
			}
			k++
		}
	}
	cs = runVariants(cs, 9, "sign")
	{
		sc := sessCfg{"eddsa-signing", 3, 1, []int{0, 1, 2}, 0, 0, "seeded", 0.3}
		p := sc.P()
		p["max"] = 1500
		id := "short-encodings/eddsa-signing/until-every-32-byte-field-was-sent-with-a-leading-zero-byte"
		cs = append(cs, core.Case{ID: id, Class: id, Kind: "short-fields", P: p, Cost: 30})
	}
	return cs
}

func c02Run(c core.Case, env *core.Env) core.Result {
	r := res(c)
	if c.Kind == "short-fields" {
		shortFieldsRun(&r, env, c.P, c.P.Int("max"))
		return r
	}
	n, t := c.P.Int("n"), c.P.Int("t")
	keys, err := EDDSAKey(env, n, t, []string{"small", "seeded", "large"}[len(c.ID)%3], c.ID)
	if err != nil {
		r.Inconcl("key setup failed: %v", err)
		return r
	}
	var sel []eddsakeygen.LocalPartySaveData
	for _, i := range c.P.Ints("signers") {
		sel = append(sel, keys[i])
	}
	pub := refPt(keys[0].EDDSAPub)
	msg := edMessage(c.P.Str("msg"), env.Seed, c.ID)
	full := c.P.Int("full")
	beforeKeys := snapshotEDDSA(sel)
	defer setDefaultCurve(c.P, "ed25519")()
	w := sim.EDDSASigning(env.Seed+int64(len(c.ID)), sel, t, msg, sim.SignOpts{FullBytesLen: full, Shuffle: c.P.Bool("shuffle"), PartyCount: c.P.Int("pcount")})
	w.ShareObjects = c.P.Bool("objects")
	w.Run(schedByName(c.P.Str("sched"), w), nil)
	noteRun(&r, w)
	outs, missing := sigOuts(w)
	if errs := errorsOf(w); len(errs) > 0 {
		r.Fail("edsign:honest-error", "honest signing reported errors: %s", core.Clip(strings.Join(errs, " | "), 600))
		r.Witness = strings.Join(w.Trace(100), "\n")
		return r
	}
	if len(missing) > 0 {
		r.Fail("edsign:not-finished", "all messages delivered, signers %v never finished", missing)
		r.Witness = strings.Join(w.Trace(100), "\n")
		return r
	}
	for _, nd := range w.Nodes {
		if len(nd.Ended) != 1 {
			r.Fail("edsign:ended-count", "%s emitted %d results", nd.Name, len(nd.Ended))
		}
	}
	eddsaSigOracle(&r, pub, msg, full, outs)
	if d := diffEDDSA(beforeKeys, sel); d != "" {
		r.Fail("edsign:key-modified", "stored key data changed during signing: %s", d)
	}
	// the same in-memory key must sign again (an application loads its share once and signs many times)
	if r.Verdict != core.Violated && len(c.ID)%4 == 0 {
		msg2 := new(big.Int).Add(msg, big1)
		w2 := sim.EDDSASigning(env.Seed+1, sel, t, msg2, sim.SignOpts{})
		w2.Run(sim.StartsThen(sim.FIFO), nil)
		outs2, missing2 := sigOuts(w2)
		if errs := errorsOf(w2); len(errs) > 0 || len(missing2) > 0 {
			r.Fail("edsign:second-session-failed", "a second signing session with the same in-memory key failed: %s %v", core.Clip(strings.Join(errs, " | "), 300), missing2)
		} else {
			eddsaSigOracle(&r, pub, msg2, 0, outs2)
			r.Count("second_sessions", 1)
		}
	}
	r.NonTrivial = r.Obs["signatures_verified"] > 0
	if r.Verdict == core.Violated {
		r.Witness = strings.Join(w.Trace(100), "\n")
	}
	if len(outs) > 0 && c.P.Str("msg") == "32b-lz" {
		r.Sample = map[string]any{"case": c.ID, "signature": fmt.Sprintf("%x", outs[0].Signature), "M": fmt.Sprintf("%x", outs[0].M), "A": fmt.Sprintf("%x", ref.EdEncode(pub))}
	}
	return r
}
