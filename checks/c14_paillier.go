package checks

import (
	"context"
	"crypto/rand"
	"encoding/json"
	"fmt"
	"math/big"
	"time"

	"github.com/bnb-chain/tss-lib/v2/crypto/paillier"

	"verif/core"
	"verif/ref"
)

// C14 — Paillier is correct, additively homomorphic and domain-checked.

func init() {
	core.Register(&core.Check{
		ID:    "C14",
		Level: "exploration",
		Rule: "keys: the 5 vendored 2048-bit keys and freshly generated keys of 64..512 bits (quick 4, thorough 40); per key: m in {0,1,N-1,seeded} through Encrypt/Decrypt, pairs and triples through HomoAdd/HomoMult, " +
			"every decryption cross-checked against a CRT implementation that uses only P,Q; every out-of-domain value just outside each bound. Class = (key id, law); non-trivial when >=1 decryption was compared.",
		Assumptions: []string{"ref.CRTDecrypt (known-answer tested)", "stdlib ProbablyPrime(40) + trial division as primality oracle"},
		Gen:         c14Gen,
		Run:         c14Run,
		MinEvents:   []string{"decrypt_compared", "homomorphic_compared", "domain_refused", "keys_structure_checked"},
	})
}

func c14Gen(tier string, seed int64) []core.Case {
	var cs []core.Case
	for i := 0; i < 5; i++ {
		for _, law := range []string{"encdec", "homo", "domain", "immutable"} {
			id := fmt.Sprintf("vendored%d/%s", i, law)
			cs = append(cs, core.Case{ID: id, Class: id, Kind: law, Cost: 4, P: core.P{"key": i, "n": tierN(tier, 6, 40)}})
		}
	}
	sizes := []int{64, 128, 256, 512}
	n := tierN(tier, 4, 40)
	for i := 0; i < n; i++ {
		bits := sizes[i%len(sizes)]
		id := fmt.Sprintf("fresh%d-%dbit", i, bits)
		cost := 1.0
		if bits >= 512 {
			cost = 8
		}
		cs = append(cs, core.Case{ID: id, Class: id, Kind: "fresh", Cost: cost, P: core.P{"bits": bits, "i": i, "n": tierN(tier, 6, 20)}})
	}
	// key sizes in every residue class modulo 16: the prime generator sets the top bits of its candidates byte-wise, with
	// one branch per bit position of the top bit inside its byte
	for b := 66; b <= 96; b += 2 {
		id := fmt.Sprintf("keysizes/%dbit", b)
		cs = append(cs, core.Case{ID: id, Class: id, Kind: "keysizes", Cost: 1, P: core.P{"bits": b, "n": tierN(tier, 8, 40)}})
	}
	// very small keys: the prime generator's sieve walks upwards from a random start, and only at these sizes is the
	// top of the range within reach of that walk (a candidate one bit too long must not come out)
	for b := 20; b <= 34; b += 2 {
		id := fmt.Sprintf("keysizes/%dbit", b)
		cs = append(cs, core.Case{ID: id, Class: id, Kind: "keysizes", Cost: 2, P: core.P{"bits": b, "n": tierN(tier, 150, 1500)}})
	}
	for _, b := range []int{260, 276} {
		id := fmt.Sprintf("keysizes/%dbit", b)
		cs = append(cs, core.Case{ID: id, Class: id, Kind: "keysizes", Cost: 4, P: core.P{"bits": b, "n": tierN(tier, 4, 12)}})
	}
	return cs
}

func c14Run(c core.Case, env *core.Env) core.Result {
	r := res(c)
	if c.Kind == "keysizes" {
		bits := c.P.Int("bits")
		ctx, cancel := context.WithTimeout(context.Background(), 10*time.Minute)
		defer cancel()
		for i := 0; i < c.P.Int("n"); i++ {
			sk, pk, err := paillier.GenerateKeyPair(ctx, rand.Reader, bits, 4)
			if err != nil {
				r.Inconcl("GenerateKeyPair(%d) failed: %v", bits, err)
				return r
			}
			c14KeyStructure(&r, sk, pk, bits)
			if i == 0 {
				c14EncDec(&r, sk, 3, rng(env.Seed, c.ID))
			}
		}
		r.NonTrivial = r.Obs["keys_structure_checked"] > 0
		return r
	}
	if c.Kind == "fresh" {
		bits := c.P.Int("bits")
		ctx, cancel := context.WithTimeout(context.Background(), 10*time.Minute)
		defer cancel()
		sk, pk, err := paillier.GenerateKeyPair(ctx, rand.Reader, bits, 4)
		if err != nil {
			r.Inconcl("GenerateKeyPair(%d) failed: %v", bits, err)
			return r
		}
		c14KeyStructure(&r, sk, pk, bits)
		rg := rng(env.Seed, c.ID)
		c14EncDec(&r, sk, c.P.Int("n"), rg)
		c14Homo(&r, sk, c.P.Int("n"), rg)
		c14Domain(&r, sk, rg)
		c14Immutable(&r, sk)
		r.NonTrivial = r.Obs["decrypt_compared"] > 0
		r.Sample = map[string]any{"case": c.ID, "N_bits": sk.N.BitLen(), "P-Q_bits": new(big.Int).Sub(sk.P, sk.Q).BitLen()}
		return r
	}
	fx, err := Fixtures(env.Repo)
	if err != nil {
		r.Inconcl("fixtures: %v", err)
		return r
	}
	sk := fx[c.P.Int("key")].PaillierSK
	rg := rng(env.Seed, c.ID)
	switch c.Kind {
	case "encdec":
		c14KeyStructure(&r, sk, &sk.PublicKey, 2048)
		c14EncDec(&r, sk, c.P.Int("n"), rg)
		c14Scripted(&r, sk)
		var all []*paillier.PrivateKey
		for i := range fx {
			all = append(all, fx[i].PaillierSK)
		}
		c14KeyObjectReuse(&r, all)
	case "homo":
		c14Homo(&r, sk, c.P.Int("n"), rg)
	case "domain":
		c14Domain(&r, sk, rg)
	case "immutable":
		c14Immutable(&r, sk)
		if c.P.Int("key") == 0 {
			var all []*paillier.PrivateKey
			for i := range fx {
				all = append(all, fx[i].PaillierSK)
			}
			c14Concurrent(&r, all)
		}
	}
	r.NonTrivial = r.Obs["decrypt_compared"]+r.Obs["domain_refused"] > 0
	return r
}

func c14KeyStructure(r *core.Result, sk *paillier.PrivateKey, pk *paillier.PublicKey, bits int) {
	r.Count("keys_structure_checked", 1)
	if sk.N.BitLen() != bits {
		r.Fail("key-bitlen", "modulus has %d bits, %d requested", sk.N.BitLen(), bits)
	}
	if pk.N.Cmp(sk.N) != 0 {
		r.Fail("key-pub", "public N differs from private N")
	}
	if new(big.Int).Mul(sk.P, sk.Q).Cmp(sk.N) != 0 {
		r.Fail("key-pq", "N != P*Q")
	}
	if sk.P.Cmp(sk.Q) == 0 {
		r.Fail("key-p=q", "P == Q")
	}
	for _, pr := range []*big.Int{sk.P, sk.Q} {
		h := new(big.Int).Rsh(pr, 1)
		if !ref.IsPrime(pr) || !ref.IsPrime(h) {
			r.Fail("key-safe-prime", "factor %s is not a safe prime", hx(pr))
		}
		if pr.BitLen() != bits/2 {
			r.Fail("key-factor-bits", "factor has %d bits, want %d", pr.BitLen(), bits/2)
		}
	}
	if d := new(big.Int).Sub(sk.P, sk.Q); d.BitLen() < bits/2-3 {
		r.Fail("key-pq-close", "|P-Q| has only %d bits", d.BitLen())
	}
	p1, q1 := new(big.Int).Sub(sk.P, big1), new(big.Int).Sub(sk.Q, big1)
	phi := new(big.Int).Mul(p1, q1)
	if sk.PhiN.Cmp(phi) != 0 {
		r.Fail("key-phi", "PhiN != (P-1)(Q-1)")
	}
	lcm := new(big.Int).Div(phi, new(big.Int).GCD(nil, nil, p1, q1))
	if sk.LambdaN.Cmp(lcm) != 0 {
		r.Fail("key-lambda", "LambdaN != lcm(P-1,Q-1)")
	}
	if sk.Gamma().Cmp(new(big.Int).Add(sk.N, big1)) != 0 {
		r.Fail("key-gamma", "Gamma != N+1")
	}
}

func c14Messages(sk *paillier.PrivateKey, n int, rg interface{ Read([]byte) (int, error) }, seeded func() *big.Int) []*big.Int {
	ms := []*big.Int{big.NewInt(0), big.NewInt(1), new(big.Int).Sub(sk.N, big1), big.NewInt(2), new(big.Int).Rsh(sk.N, 1)}
	for len(ms) < n {
		ms = append(ms, seeded())
	}
	return ms
}

// scriptedReader hands out prepared byte strings for the reads of exactly their length, then real randomness. One-byte
// reads (crypto/rand.Int's "maybe read a byte" step) are served without consuming the script.
type scriptedReader struct {
	script [][]byte
	used   int
}

func (s *scriptedReader) Read(p []byte) (int, error) {
	if len(p) > 1 && len(s.script) > 0 && len(s.script[0]) == len(p) {
		copy(p, s.script[0])
		s.script = s.script[1:]
		s.used++
		return len(p), nil
	}
	return rand.Read(p)
}

// c14Scripted: an entropy source whose first candidates for the encryption randomness are not units modulo N (multiples of
// a prime factor, N itself is >= the bound, 0): the library has to skip them.
func c14Scripted(r *core.Result, sk *paillier.PrivateKey) {
	k := (sk.N.BitLen() + 7) / 8
	pad := func(v *big.Int) []byte { return v.FillBytes(make([]byte, k)) }
	cands := [][]byte{pad(new(big.Int).Mul(sk.P, big.NewInt(3))), pad(new(big.Int).Mul(sk.Q, big.NewInt(5))), pad(big.NewInt(0)), pad(new(big.Int).Set(sk.P))}
	for i := range cands {
		rd := &scriptedReader{script: [][]byte{cands[i], cands[(i+1)%len(cands)]}}
		m := big.NewInt(int64(1000 + i))
		c, x, err := sk.EncryptAndReturnRandomness(rd, m)
		if err != nil {
			r.Fail("encrypt-refuses", "Encrypt failed with an entropy source whose first candidates are not units: %v", err)
			continue
		}
		r.Count("scripted_entropy_encryptions", 1)
		if rd.used == 0 {
			continue // the library reads its entropy in another way: nothing was steered
		}
		r.Count("scripted_candidates_consumed", int64(rd.used))
		if x == nil || x.Sign() <= 0 || new(big.Int).GCD(nil, nil, x, sk.N).Cmp(big1) != 0 {
			r.Fail("encrypt-randomness-not-unit", "the encryption randomness returned is not a unit modulo N (a candidate sharing a factor with N was used)")
		}
		if new(big.Int).GCD(nil, nil, c, sk.N).Cmp(big1) != 0 {
			r.Fail("ciphertext-range", "ciphertext is not a unit modulo N^2 (entropy source with non-unit candidates)")
		}
		if got, err := sk.Decrypt(c); err != nil || got.Cmp(m) != 0 {
			r.Fail("decrypt", "Dec(Enc(m)) fails for a ciphertext made with steered entropy: %v", err)
		}
	}
}

// c14KeyObjectReuse: one PublicKey / PrivateKey variable that is filled with several keys one after the other (decoding
// stored keys into the same variable, assigning N after a key refresh) behaves as the key it currently holds.
func c14KeyObjectReuse(r *core.Result, keys []*paillier.PrivateKey) {
	var pk paillier.PublicKey
	var sk paillier.PrivateKey
	for round := 0; round < 2; round++ {
		for i, k := range keys {
			b, err := json.Marshal(&k.PublicKey)
			bs, err2 := json.Marshal(k)
			if err != nil || err2 != nil {
				r.Inconcl("cannot serialise a key: %v %v", err, err2)
				return
			}
			if err := json.Unmarshal(b, &pk); err != nil {
				r.Fail("key-json", "cannot decode a public key: %v", err)
				return
			}
			if err := json.Unmarshal(bs, &sk); err != nil {
				r.Fail("key-json", "cannot decode a private key: %v", err)
				return
			}
			m := big.NewInt(int64(77 + i))
			c, err := pk.Encrypt(rand.Reader, m)
			if err != nil {
				r.Fail("key-object-reuse", "Encrypt with a re-filled key object fails: %v", err)
				continue
			}
			if got, err := k.Decrypt(c); err != nil || got.Cmp(m) != 0 {
				r.Fail("key-object-reuse", "a public key object decoded over a previous key encrypts under the wrong modulus (key %d, pass %d): %v", i, round, err)
			}
			if got, err := sk.Decrypt(c); err != nil || got.Cmp(m) != 0 {
				r.Fail("key-object-reuse", "a private key object decoded over a previous key decrypts wrongly (key %d, pass %d): %v", i, round, err)
			}
			if pk.NSquare().Cmp(new(big.Int).Mul(k.N, k.N)) != 0 {
				r.Fail("key-object-reuse", "NSquare() of a re-filled key object is not N^2")
			}
			// assigning the modulus directly
			pk2 := paillier.PublicKey{N: keys[(i+1)%len(keys)].N}
			pk2.NSquare()
			pk2.N = k.N
			if c2, err := pk2.Encrypt(rand.Reader, m); err != nil {
				r.Fail("key-object-reuse", "Encrypt after assigning N fails: %v", err)
			} else if got, err := k.Decrypt(c2); err != nil || got.Cmp(m) != 0 {
				r.Fail("key-object-reuse", "a key object whose N was assigned after use still works modulo the old N^2")
			}
			r.Count("key_objects_refilled", 1)
		}
	}
}

func c14EncDec(r *core.Result, sk *paillier.PrivateKey, n int, rg interface {
	Read([]byte) (int, error)
	Intn(int) int
}) {
	n2 := sk.NSquare()
	seeded := func() *big.Int {
		b := make([]byte, sk.N.BitLen()/8+8)
		rg.Read(b)
		return new(big.Int).Mod(new(big.Int).SetBytes(b), sk.N)
	}
	for _, m := range c14Messages(sk, n, rg, seeded) {
		c1, x, err := sk.EncryptAndReturnRandomness(rand.Reader, m)
		if err != nil {
			r.Fail("encrypt-refuses", "Encrypt refused m=%s in [0,N): %v", hx(m), err)
			continue
		}
		c2, err := sk.Encrypt(rand.Reader, m)
		if err != nil {
			r.Fail("encrypt-refuses", "Encrypt refused m=%s: %v", hx(m), err)
			continue
		}
		if c1.Cmp(c2) == 0 {
			r.Fail("encrypt-not-fresh", "two encryptions of the same plaintext are identical")
		}
		for _, cc := range []*big.Int{c1, c2} {
			if cc.Sign() <= 0 || cc.Cmp(n2) >= 0 || new(big.Int).GCD(nil, nil, cc, sk.N).Cmp(big1) != 0 {
				r.Fail("ciphertext-range", "ciphertext not a unit in (0,N^2)")
			}
			got, err := sk.Decrypt(cc)
			if err != nil || got.Cmp(m) != 0 {
				r.Fail("decrypt", "Dec(Enc(m)) = %s err=%v, want %s", hx(got), err, hx(m))
			}
			if ref.CRTDecrypt(cc, sk.P, sk.Q).Cmp(m) != 0 {
				r.Fail("decrypt-crt", "reference CRT decryption disagrees with the plaintext")
			}
			r.Count("decrypt_compared", 1)
		}
		// the returned randomness really is the randomness: c = (1+N)^m x^N
		want := new(big.Int).Exp(new(big.Int).Add(sk.N, big1), m, n2)
		want.Mul(want, new(big.Int).Exp(x, sk.N, n2))
		want.Mod(want, n2)
		if want.Cmp(c1) != 0 {
			r.Fail("encrypt-randomness", "ciphertext is not (1+N)^m * x^N for the returned x")
		}
		if x.Sign() <= 0 || x.Cmp(sk.N) >= 0 || new(big.Int).GCD(nil, nil, x, sk.N).Cmp(big1) != 0 {
			r.Fail("encrypt-randomness-range", "encryption randomness not a unit below N")
		}
	}
}

func c14Homo(r *core.Result, sk *paillier.PrivateKey, n int, rg interface {
	Read([]byte) (int, error)
	Intn(int) int
}) {
	seeded := func() *big.Int {
		b := make([]byte, sk.N.BitLen()/8+8)
		rg.Read(b)
		return new(big.Int).Mod(new(big.Int).SetBytes(b), sk.N)
	}
	ms := c14Messages(sk, n, rg, seeded)
	dec := func(c *big.Int) *big.Int {
		m, err := sk.Decrypt(c)
		if err != nil {
			return nil
		}
		if ref.CRTDecrypt(c, sk.P, sk.Q).Cmp(m) != 0 {
			r.Fail("decrypt-crt", "Decrypt and reference CRT decryption disagree")
		}
		r.Count("decrypt_compared", 1)
		return m
	}
	for i, m1 := range ms {
		m2 := ms[(i*3+1)%len(ms)]
		k := ms[(i*5+2)%len(ms)]
		c1, _ := sk.Encrypt(rand.Reader, m1)
		c2, _ := sk.Encrypt(rand.Reader, m2)
		sum, err := sk.HomoAdd(c1, c2)
		if err != nil {
			r.Fail("homoadd-refuses", "HomoAdd refused valid ciphertexts: %v", err)
			continue
		}
		want := new(big.Int).Add(m1, m2)
		want.Mod(want, sk.N)
		if got := dec(sum); got == nil || got.Cmp(want) != 0 {
			r.Fail("homoadd", "Dec(HomoAdd) = %s, want %s", hx(got), hx(want))
		}
		prod, err := sk.HomoMult(k, c1)
		if err != nil {
			r.Fail("homomult-refuses", "HomoMult refused valid input: %v", err)
			continue
		}
		want = new(big.Int).Mul(k, m1)
		want.Mod(want, sk.N)
		if got := dec(prod); got == nil || got.Cmp(want) != 0 {
			r.Fail("homomult", "Dec(HomoMult(k,c)) = %s, want %s", hx(got), hx(want))
		}
		// triple: k*(m1) + m2
		c3, err := sk.HomoAdd(prod, c2)
		if err == nil {
			want = new(big.Int).Mul(k, m1)
			want.Add(want, m2)
			want.Mod(want, sk.N)
			if got := dec(c3); got == nil || got.Cmp(want) != 0 {
				r.Fail("homo-affine", "Dec(k*c1+c2) wrong")
			}
		}
		r.Count("homomorphic_compared", 3)
	}
}

func c14Domain(r *core.Result, sk *paillier.PrivateKey, rg interface {
	Read([]byte) (int, error)
	Intn(int) int
}) {
	N, N2 := sk.N, sk.NSquare()
	c, _ := sk.Encrypt(rand.Reader, big.NewInt(5))
	refuse := func(what string, f func() error) {
		var err error
		if p, msg, _ := guard(func() { err = f() }); p {
			r.Fail("domain-panic:"+what, "%s panicked: %s", what, msg)
			return
		}
		if err == nil {
			r.Fail("domain-accepts:"+what, "%s was accepted", what)
			return
		}
		r.Count("domain_refused", 1)
	}
	accept := func(what string, f func() error) {
		if err := f(); err != nil {
			r.Fail("domain-refuses:"+what, "%s (inside the domain) was refused: %v", what, err)
		}
	}
	neg := big.NewInt(-1)
	np1 := new(big.Int).Add(N, big1)
	n2p1 := new(big.Int).Add(N2, big1)
	enc := func(m *big.Int) func() error {
		return func() error { _, e := sk.Encrypt(rand.Reader, m); return e }
	}
	refuse("Encrypt(N)", enc(N))
	refuse("Encrypt(N+1)", enc(np1))
	refuse("Encrypt(-1)", enc(neg))
	refuse("Encrypt(N^2)", enc(N2))
	accept("Encrypt(N-1)", enc(new(big.Int).Sub(N, big1)))
	hm := func(m, cc *big.Int) func() error { return func() error { _, e := sk.HomoMult(m, cc); return e } }
	refuse("HomoMult(N,c)", hm(N, c))
	refuse("HomoMult(-1,c)", hm(neg, c))
	refuse("HomoMult(N+1,c)", hm(np1, c))
	refuse("HomoMult(m,N^2)", hm(big2, N2))
	refuse("HomoMult(m,N^2+1)", hm(big2, n2p1))
	refuse("HomoMult(m,-1)", hm(big2, neg))
	accept("HomoMult(N-1,c)", hm(new(big.Int).Sub(N, big1), c))
	accept("HomoMult(0,c)", hm(big.NewInt(0), c))
	ha := func(a, b *big.Int) func() error { return func() error { _, e := sk.HomoAdd(a, b); return e } }
	refuse("HomoAdd(N^2,c)", ha(N2, c))
	refuse("HomoAdd(c,N^2)", ha(c, N2))
	refuse("HomoAdd(-1,c)", ha(neg, c))
	refuse("HomoAdd(c,N^2+1)", ha(c, n2p1))
	accept("HomoAdd(N^2-1,c)", ha(new(big.Int).Sub(N2, big1), c))
	de := func(cc *big.Int) func() error { return func() error { _, e := sk.Decrypt(cc); return e } }
	refuse("Decrypt(N^2)", de(N2))
	refuse("Decrypt(N^2+1)", de(n2p1))
	refuse("Decrypt(-1)", de(neg))
	refuse("Decrypt(0)", de(big.NewInt(0)))
	refuse("Decrypt(P)", de(sk.P))
	refuse("Decrypt(k*P)", de(new(big.Int).Mul(sk.P, big.NewInt(12345))))
	refuse("Decrypt(k*Q)", de(new(big.Int).Mul(sk.Q, big.NewInt(777))))
	refuse("Decrypt(N)", de(N))
	accept("Decrypt(1)", de(big1))
}

// c14Immutable: no operation may change its arguments or the key it is called on, results must not share storage with
// either (writing into a result must not be visible through the key or a later result), and the same object may be
// passed in two argument positions.
func c14Immutable(r *core.Result, sk *paillier.PrivateKey) {
	snapKey := func() string {
		return fmt.Sprintf("%x|%x|%x|%x|%x|%x", sk.N, sk.PublicKey.N, sk.LambdaN, sk.PhiN, sk.P, sk.Q)
	}
	key0 := snapKey()
	N := new(big.Int).Set(sk.N)
	N2 := new(big.Int).Mul(N, N)
	scribble := func(v *big.Int) {
		if v != nil {
			v.SetInt64(12345) // writes through the result's backing array where it is long enough
			v.Lsh(v, 7)
		}
	}
	chk := func(op string, args map[string][2]*big.Int) {
		for name, pair := range args {
			if pair[0].Cmp(pair[1]) != 0 {
				r.Fail("arg-modified:"+op, "%s changed its argument %s (was %s, is %s)", op, name, hx(pair[1]), hx(pair[0]))
			}
		}
		if k := snapKey(); k != key0 {
			r.Fail("key-modified:"+op, "%s changed the key object it was called on", op)
			key0 = k
		}
		r.Count("immutability_checked", 1)
	}
	ms := []*big.Int{big.NewInt(0), big.NewInt(1), big.NewInt(7), new(big.Int).Sub(N, big1), new(big.Int).Rsh(N, 1), new(big.Int).Sub(N, big2)}
	for i, m := range ms {
		m0 := new(big.Int).Set(m)
		c, x, err := sk.EncryptAndReturnRandomness(rand.Reader, m)
		if err != nil {
			r.Fail("encrypt-refuses", "Encrypt refused m=%s: %v", hx(m0), err)
			continue
		}
		chk("Encrypt", map[string][2]*big.Int{"m": {m, m0}})
		cKeep, xKeep := new(big.Int).Set(c), new(big.Int).Set(x)
		// results are the caller's: scribbling over x must not change c, the key, or what comes next
		scribble(x)
		if c.Cmp(cKeep) != 0 {
			r.Fail("result-aliased:Encrypt", "writing into the returned randomness changed the returned ciphertext")
		}
		chk("Encrypt(result overwritten)", nil)
		_ = xKeep
		got, err := sk.Decrypt(c)
		if err != nil || got.Cmp(m0) != 0 {
			r.Fail("decrypt", "Dec(Enc(m)) wrong for m=%s: %v", hx(m0), err)
		}
		chk("Decrypt", map[string][2]*big.Int{"c": {c, cKeep}})
		scribble(got)
		chk("Decrypt(result overwritten)", map[string][2]*big.Int{"c": {c, cKeep}})
		got2, err := sk.Decrypt(c)
		if err != nil || got2.Cmp(m0) != 0 {
			r.Fail("decrypt-repeat", "decrypting the same ciphertext object a second time gives another answer: %v", err)
		}
		// the same object in both positions
		dbl, err := sk.HomoAdd(c, c)
		if err != nil {
			r.Fail("homoadd-refuses", "HomoAdd(c,c) refused: %v", err)
		} else {
			chk("HomoAdd(c,c)", map[string][2]*big.Int{"c": {c, cKeep}})
			want := new(big.Int).Lsh(m0, 1)
			want.Mod(want, N)
			if d, err := sk.Decrypt(dbl); err != nil || d.Cmp(want) != 0 || ref.CRTDecrypt(dbl, sk.P, sk.Q).Cmp(want) != 0 {
				r.Fail("homoadd", "Dec(HomoAdd(c,c)) != 2m for m=%s", hx(m0))
			}
			r.Count("decrypt_compared", 1)
			scribble(dbl)
			chk("HomoAdd(result overwritten)", map[string][2]*big.Int{"c": {c, cKeep}})
		}
		k := ms[(i+2)%len(ms)]
		k0 := new(big.Int).Set(k)
		pr, err := sk.HomoMult(k, c)
		if err != nil {
			r.Fail("homomult-refuses", "HomoMult refused: %v", err)
		} else {
			chk("HomoMult", map[string][2]*big.Int{"k": {k, k0}, "c": {c, cKeep}})
			want := new(big.Int).Mul(k0, m0)
			want.Mod(want, N)
			if d, err := sk.Decrypt(pr); err != nil || d.Cmp(want) != 0 {
				r.Fail("homomult", "Dec(HomoMult(k,c)) wrong for k=%s m=%s", hx(k0), hx(m0))
			}
			r.Count("decrypt_compared", 1)
			scribble(pr)
			chk("HomoMult(result overwritten)", map[string][2]*big.Int{"k": {k, k0}, "c": {c, cKeep}})
		}
		// scalar and ciphertext are the same object (a ciphertext below N used as a scalar as well)
		small := new(big.Int).Mod(cKeep, N)
		small0 := new(big.Int).Set(small)
		if pr2, err := sk.HomoMult(small, small); err == nil {
			chk("HomoMult(v,v)", map[string][2]*big.Int{"v": {small, small0}})
			if want := new(big.Int).Exp(small0, small0, N2); pr2.Cmp(want) != 0 {
				r.Fail("homomult-aliased", "HomoMult(v,v) with one object in both positions is not v^v mod N^2")
			}
		}
		// key arguments passed as operands: N-1 built from the key's own N object must leave N alone
		if _, err := sk.HomoMult(sk.N, c); err == nil {
			r.Fail("domain-accepts:HomoMult(N,c)", "HomoMult accepted the key's own modulus object as a scalar")
		}
		chk("HomoMult(key.N,c)", map[string][2]*big.Int{"c": {c, cKeep}})
		if _, err := sk.Encrypt(rand.Reader, sk.N); err == nil {
			r.Fail("domain-accepts:Encrypt(N)", "Encrypt accepted the key's own modulus object as plaintext")
		}
		chk("Encrypt(key.N)", nil)
		// derived values handed out by the key are the caller's too
		for _, f := range []struct {
			name string
			get  func() *big.Int
			want *big.Int
		}{{"NSquare", sk.NSquare, N2}, {"Gamma", sk.Gamma, new(big.Int).Add(N, big1)}, {"PublicKey.NSquare", sk.PublicKey.NSquare, N2}} {
			v := f.get()
			if v.Cmp(f.want) != 0 {
				r.Fail("key-derived:"+f.name, "%s() returns a wrong value", f.name)
			}
			scribble(v)
			if v2 := f.get(); v2.Cmp(f.want) != 0 {
				r.Fail("result-aliased:"+f.name, "writing into the value returned by %s() changes what it returns next", f.name)
			}
			chk(f.name+"(result overwritten)", nil)
		}
		// AsInts hands out the key's own N (by design, for hashing) next to a fresh Gamma: only the fresh one is the caller's
		if ai := sk.AsInts(); len(ai) == 2 && ai[0].Cmp(N) == 0 {
			scribble(ai[1])
			chk("AsInts(Gamma overwritten)", nil)
		}
		if c3, err := sk.Encrypt(rand.Reader, m0); err != nil {
			r.Fail("encrypt-refuses", "Encrypt fails after results were overwritten: %v", err)
		} else if ref.CRTDecrypt(c3, sk.P, sk.Q).Cmp(m0) != 0 {
			r.Fail("decrypt-crt", "an encryption made after earlier results were overwritten does not decrypt to its plaintext")
		}
	}
}

// c14Concurrent: one key object used from several goroutines at once (the protocol rounds do this: one goroutine per peer
// encrypts and verifies under the same keys). Every result is judged exactly as in the sequential cases.
func c14Concurrent(r *core.Result, keys []*paillier.PrivateKey) {
	type bad struct{ sig, msg string }
	const G = 8
	ch := make(chan bad, G*len(keys)*8)
	done := make(chan int64, G)
	for g := 0; g < G; g++ {
		go func(g int) {
			var n int64
			for it := 0; it < 3; it++ {
				for ki, sk := range keys {
					// a fresh copy of the public half, as a receiver would build it, next to the shared private object
					pk := &sk.PublicKey
					m := big.NewInt(int64(1000*g + 10*it + ki))
					c, err := pk.Encrypt(rand.Reader, m)
					if err != nil {
						ch <- bad{"encrypt-refuses", fmt.Sprintf("concurrent Encrypt failed: %v", err)}
						continue
					}
					if ref.CRTDecrypt(c, sk.P, sk.Q).Cmp(m) != 0 {
						ch <- bad{"concurrent-encrypt", fmt.Sprintf("ciphertext made while %d goroutines share %d key objects does not decrypt to its plaintext (key %d)", G, len(keys), ki)}
					}
					if got, err := sk.Decrypt(c); err != nil || got.Cmp(m) != 0 {
						ch <- bad{"concurrent-decrypt", fmt.Sprintf("concurrent Decrypt wrong (key %d): %v", ki, err)}
					}
					c2, err := pk.HomoMult(big.NewInt(3), c)
					if err == nil {
						c2, err = pk.HomoAdd(c2, c)
					}
					if err != nil || ref.CRTDecrypt(c2, sk.P, sk.Q).Cmp(new(big.Int).Mul(m, big.NewInt(4))) != 0 {
						ch <- bad{"concurrent-homo", fmt.Sprintf("concurrent 3*c+c wrong (key %d): %v", ki, err)}
					}
					n++
				}
			}
			done <- n
		}(g)
	}
	var total int64
	for g := 0; g < G; g++ {
		total += <-done
	}
	close(ch)
	for b := range ch {
		r.Fail(b.sig, "%s", b.msg)
	}
	r.Count("concurrent_ops_compared", total)
	r.Count("decrypt_compared", total)
}
