package checks

import (
	"fmt"
	"math/big"
	"strings"

	"verif/core"
	"verif/ref"
	"verif/sim"
)

// C04 — resharing keeps the key, re-shares it correctly, retires old shares last.
//
// The monitor runs after EVERY executed event of the resharing session (every prefix of the delivery
// sequence is the state of a run cut there):
//   I1  an old member's caller-held Xi differs from its pre-run snapshot  =>  every new member's ACK has been sent
//   I2  a new member has emitted key material                               =>  every ACK has been sent
//   I4  while not all ACKs have been sent: every old member's key data deep-equals the snapshot, and (sampled)
//       the old committee can sign with copies of it under the original public key
//   I3  on completion: new data is a consistent (t',n') sharing of the SAME public key, t'+1 new members sign,
//       old-only members ended with Xi = 0
//   I5  an old member dealing a wrong secret makes the new members fail before any ACK

func init() {
	core.Register(&core.Check{
		ID:    "C04",
		Level: "fault_enumeration",
		Rule: "old (n,t) in {(3,1),(4,2),(5,2)} with participating old subsets of size t+1 and t+2, new (n',t') with t'<t, =t, >t and ids disjoint from the old ones, proofs on/off (ECDSA), schedules FIFO/LIFO/random/starve/new-first; " +
			"cut points = every prefix of the delivery sequence (invariants evaluated after every event), one party going silent at a seeded step, a wrong-secret dealer, chains of 2-3 successive resharings followed by signing. " +
			"EdDSA: all of it in quick; ECDSA: 4 runs (vendored 5-party key) in quick, ~40 + chains in thorough. Class = (curve, old shape, new shape, fault, scheduler); non-trivial when the invariants were evaluated on >=1 step and an outcome (completion or intact old key) was checked.",
		Assumptions: []string{"a crash inside one Update call is not modelled (erasure is a single statement)", "party ids of the two committees are distinct (property scope)"},
		Gen:         c04Gen,
		Run:         c04Run,
		MinEvents:   []string{"invariant_steps", "resharings_completed", "cut_states_signed", "new_committee_signed"},
	})
}

func c04Gen(tier string, seed int64) []core.Case {
	var cs []core.Case
	type cfg struct {
		n, t, olds, nn, nt int
	}
	var cfgs []cfg
	for _, o := range [][2]int{{3, 1}, {4, 2}, {5, 2}} {
		for _, extra := range []int{1, 2} {
			olds := o[1] + extra
			if olds > o[0] {
				continue
			}
			for _, nw := range [][2]int{{o[1] + 1, o[1] - 1}, {o[1] + 2, o[1]}, {o[1] + 2, o[1] + 1}, {5, 3}} {
				if nw[1] < 1 || nw[1] >= nw[0] || nw[0] > 5 {
					continue
				}
				cfgs = append(cfgs, cfg{o[0], o[1], olds, nw[0], nw[1]})
			}
		}
	}
	scheds := []string{"fifo", "lifo", "random", "starve0", "starve-last", "starts-random"}
	k := 0
	for _, c := range cfgs {
		for _, fault := range []string{"none", "silent", "wrong-secret"} {
			sch := scheds[k%len(scheds)]
			id := fmt.Sprintf("ed25519/old%d-%d-using%d/new%d-%d/%s/%s", c.n, c.t, c.olds, c.nn, c.nt, fault, sch)
			cs = append(cs, core.Case{ID: id, Class: id, Kind: "reshare", Cost: 3,
				P: core.P{"curve": "ed25519", "n": c.n, "t": c.t, "olds": c.olds, "nn": c.nn, "nt": c.nt, "fault": fault, "sched": sch, "every": 1, "k": k}})
			k++
		}
	}
	// new committee started first / old first
	for i, c := range cfgs[:4] {
		id := fmt.Sprintf("ed25519/old%d-%d-using%d/new%d-%d/none/new-first-%d", c.n, c.t, c.olds, c.nn, c.nt, i)
		cs = append(cs, core.Case{ID: id, Class: id, Kind: "reshare", Cost: 3,
			P: core.P{"curve": "ed25519", "n": c.n, "t": c.t, "olds": c.olds, "nn": c.nn, "nt": c.nt, "fault": "none", "sched": "fifo", "newfirst": true, "every": 1, "k": 100 + i}})
	}
	for i := 0; i < tierN(tier, 3, 12); i++ {
		id := fmt.Sprintf("ed25519/chain%d", i)
		cs = append(cs, core.Case{ID: id, Class: id, Kind: "chain", Cost: 4, P: core.P{"curve": "ed25519", "i": i, "len": 2 + i%2}})
	}
	// ECDSA: the vendored (5,2) key, and fresh keys in thorough
	type ecfg struct {
		key                string
		n, t, olds, nn, nt int
		fault, sched       string
		noproofs           bool
	}
	ec := []ecfg{
		{"vendored", 5, 2, 3, 3, 1, "none", "fifo", false},
		{"vendored", 5, 2, 4, 3, 2, "none", "random", true},
		{"vendored", 5, 2, 3, 4, 3, "silent", "lifo", false},
		{"vendored", 5, 2, 3, 3, 2, "wrong-secret", "fifo", false},
	}
	if tier == "thorough" {
		k := 0
		for _, c := range cfgs {
			for _, fault := range []string{"none", "silent", "wrong-secret"} {
				if c.nn > 5 {
					continue
				}
				key := "seeded"
				if c.n == 5 && k%2 == 0 {
					key = "vendored"
				}
				ec = append(ec, ecfg{key, c.n, c.t, c.olds, c.nn, c.nt, fault, scheds[k%len(scheds)], k%3 == 0})
				k++
			}
		}
	}
	for i, c := range ec {
		id := fmt.Sprintf("secp256k1/%s-old%d-%d-using%d/new%d-%d/%s/%s/noproofs=%v/%d", c.key, c.n, c.t, c.olds, c.nn, c.nt, c.fault, c.sched, c.noproofs, i)
		cs = append(cs, core.Case{ID: id, Class: id, Kind: "reshare", Cost: 15 + 3*float64(c.nn),
			P: core.P{"curve": "secp256k1", "key": c.key, "n": c.n, "t": c.t, "olds": c.olds, "nn": c.nn, "nt": c.nt, "fault": c.fault, "sched": c.sched, "noproofs": c.noproofs, "every": 0, "k": i}})
	}
	nch := tierN(tier, 1, 4)
	for i := 0; i < nch; i++ {
		id := fmt.Sprintf("secp256k1/chain%d", i)
		cs = append(cs, core.Case{ID: id, Class: id, Kind: "chain", Cost: 40, P: core.P{"curve": "secp256k1", "i": i, "len": 2}})
	}
	cs = runVariants(cs, 12, "reshare")
	{
		sc := sessCfg{"eddsa-resharing", 3, 1, []int{0, 1}, 2, 1, "seeded", 0.5}
		p := sc.P()
		p["max"] = 1500
		id := "short-encodings/eddsa-resharing/until-every-32-byte-field-was-sent-with-a-leading-zero-byte"
		cs = append(cs, core.Case{ID: id, Class: id, Kind: "short-fields", P: p, Cost: 40})
	}
	return cs
}

type reshareMon struct {
	r        *core.Result
	w        *sim.World
	old      keyset // caller-held data of the participating old members, in old-node order
	oldSnap  []snap
	oldT     int
	origPub  ref.Pt
	newCount int
	acks     map[string]bool
	ackTypes map[string]bool
	env      *core.Env
	every    int // sign with the old data every `every` steps while ACKs are incomplete (0 = at round boundaries only)
	lastSent string
	signed   int
}

func (m *reshareMon) allAcks() bool { return len(m.acks) == m.newCount }

func (m *reshareMon) attach() {
	m.w.OnSent = append(m.w.OnSent, func(msg *sim.Msg) {
		if m.ackTypes[msg.Short] && msg.From.Group == "new" {
			m.acks[msg.From.Name] = true
		}
		m.lastSent = msg.Short
	})
	m.w.AfterStep = append(m.w.AfterStep, func(ev *sim.Event) { m.check(ev) })
}

func (m *reshareMon) check(ev *sim.Event) {
	r := m.r
	r.Count("invariant_steps", 1)
	step := len(m.w.Steps)
	acksDone := m.allAcks()
	for i := 0; i < m.old.N(); i++ {
		if acksDone {
			break
		}
		if d := m.oldSnap[i].diff(m.old.Snap(i)); d != "" {
			sig := "reshare:old-data-changed-before-acks"
			if strings.Contains(d, "Xi:") {
				sig = "reshare:old-share-erased-before-acks"
			}
			r.Fail(sig, "step %d (%s): old member %d's key data changed although only %d of %d new members have sent their ACK: %s", step, ev, i, len(m.acks), m.newCount, d)
		}
	}
	for _, n := range m.w.Nodes {
		if n.Group == "new" && len(n.Ended) > 0 && !acksDone {
			r.Fail("reshare:new-output-before-acks", "step %d: new member %s emitted key material although only %d of %d ACKs have been sent", step, n.Name, len(m.acks), m.newCount)
		}
	}
	if acksDone || r.Verdict == core.Violated {
		return
	}
	// usable: sign with copies of the old data at sampled cut points
	sample := false
	if m.every > 0 {
		sample = step%m.every == 0
	} else {
		// round boundaries: the step right after a new message type appeared
		sample = len(m.w.Steps) > 0 && len(m.w.Steps[len(m.w.Steps)-1].Sent) > 0 && m.signed < 6
	}
	if sample {
		cp := m.old.Copy()
		idx := make([]int, m.oldT+1)
		for i := range idx {
			idx[i] = (i + step) % cp.N()
		}
		// distinct indices
		seen := map[int]bool{}
		ok := true
		for _, i := range idx {
			if seen[i] {
				ok = false
			}
			seen[i] = true
		}
		if !ok {
			for i := range idx {
				idx[i] = i
			}
		}
		before := r.Obs["signatures_verified"]
		signKS(r, cp.Subset(idx), m.origPub, m.oldT, big.NewInt(int64(1000+step)), m.env.Seed+int64(step), "fifo", "reshare:cut-state")
		if r.Obs["signatures_verified"] > before {
			r.Count("cut_states_signed", 1)
			m.signed++
		}
	}
}

// signKS signs msg with all members of ks and checks the signature under pub.
func signKS(r *core.Result, ks keyset, pub ref.Pt, t int, msg *big.Int, seed int64, sched, sigPrefix string) bool {
	before := r.Obs["signatures_verified"]
	w := ks.SignWorld(seed, t, msg, sim.SignOpts{})
	w.Run(schedByName(sched, w), nil)
	outs, missing := sigOuts(w)
	if errs := errorsOf(w); len(errs) > 0 {
		r.Fail(sigPrefix+":sign-error", "signing with this key data failed: %s", core.Clip(strings.Join(errs, " | "), 400))
		return false
	}
	if len(missing) > 0 {
		r.Fail(sigPrefix+":sign-stuck", "signing with this key data did not finish for %v", missing)
		return false
	}
	if isEd(ks.Curve()) {
		eddsaSigOracle(r, pub, msg, 0, outs)
	} else {
		ecdsaSigOracle(r, pub, msg, 0, outs)
	}
	return r.Obs["signatures_verified"] > before
}

func firstK(n int) []int {
	o := make([]int, n)
	for i := range o {
		o[i] = i
	}
	return o
}

func c04Run(c core.Case, env *core.Env) core.Result {
	r := res(c)
	curve := c.P.Str("curve")
	if c.Kind == "chain" {
		c04Chain(&r, c, env)
		return r
	}
	if c.Kind == "short-fields" {
		shortFieldsRun(&r, env, c.P, c.P.Int("max"))
		return r
	}
	n, t, olds, nn, nt := c.P.Int("n"), c.P.Int("t"), c.P.Int("olds"), c.P.Int("nn"), c.P.Int("nt")
	pattern := "seeded"
	if c.P.Str("key") == "vendored" {
		pattern = "vendored"
	}
	full, err := loadKeyset(env, curve, n, t, pattern, c.ID)
	if err != nil {
		r.Inconcl("key setup failed: %v", err)
		return r
	}
	origPub := full.Pub()
	// participating old members: a seeded choice of `olds` of the n holders
	rg := rng(env.Seed, c.ID+"/olds")
	perm := rg.Perm(n)[:olds]
	old := full.Subset(perm)
	fault := c.P.Str("fault")
	dealer := -1
	if fault == "wrong-secret" {
		dealer = rg.Intn(olds)
		old.Xi(dealer).Add(old.Xi(dealer), big1) // the deviating old member deals a share of a different key
	}
	newIDs := keyIDs("new", nn, curve, env.Seed)
	defer setDefaultCurve(c.P, curve)()
	w, err := old.ReshareWorld(env, env.Seed+int64(c.P.Int("k")), t, newIDs, nt, sim.ReshareOpts{NoProofs: c.P.Bool("noproofs"), OldN: n, NewFirst: c.P.Bool("newfirst")})
	if w != nil {
		w.ShareObjects = c.P.Bool("objects")
	}
	if err != nil {
		r.Inconcl("cannot build the resharing session: %v", err)
		return r
	}
	// old nodes are created in sorted-id order: map caller-held data to node order
	var order []int
	for _, nd := range w.Nodes {
		if nd.Group != "old" {
			continue
		}
		for i := 0; i < old.N(); i++ {
			if old.Views()[i].ShareID.Cmp(nd.PID.KeyInt()) == 0 {
				order = append(order, i)
			}
		}
	}
	oldOrdered := old.Subset(order)
	mon := &reshareMon{r: &r, w: w, old: oldOrdered, oldT: t, origPub: origPub, newCount: nn, acks: map[string]bool{}, env: env, every: c.P.Int("every"),
		ackTypes: map[string]bool{"DGRound4Message2": !isEd(curve), "DGRound4Message": isEd(curve)}}
	for i := 0; i < oldOrdered.N(); i++ {
		mon.oldSnap = append(mon.oldSnap, oldOrdered.Snap(i))
	}
	if fault == "wrong-secret" {
		// with a wrong dealer the honest old members' data must stay intact; signing at cut points would use the bad share: skip it
		mon.every = 1 << 30
	}
	mon.attach()
	silentAt, silentWho := -1, -1
	if fault == "silent" {
		silentWho = rg.Intn(len(w.Nodes))
		silentAt = 1 + rg.Intn(12*len(w.Nodes))
	}
	// every party is started before the first delivery: messages that reach a new member before its own Start are
	// C07's subject (pre-Start delivery), not this property's
	sched := sim.StartsThen(schedByName(c.P.Str("sched"), w))
	w.Run(sched, func(w *sim.World) bool {
		if silentAt >= 0 && len(w.Steps) >= silentAt {
			w.Nodes[silentWho].Silent = true
			// a silent party neither sends nor processes anything any more: drop what is queued for it
			var keep []*sim.Event
			for _, e := range w.Pending {
				if e.Node.Idx != silentWho {
					keep = append(keep, e)
				}
			}
			w.Pending = keep
		}
		return false
	})
	noteRun(&r, w)
	r.Count("acks_sent", int64(len(mon.acks)))
	if r.Verdict == core.Violated {
		r.Witness = strings.Join(w.Trace(250), "\n")
		return r
	}
	errs := errorsOf(w)
	newKeys, missingNew := old.FromEnded(w, "new")
	switch fault {
	case "none":
		if len(errs) > 0 {
			r.Fail("reshare:honest-error", "honest resharing reported errors: %s", core.Clip(strings.Join(errs, " | "), 600))
			break
		}
		if len(missingNew) > 0 {
			r.Fail("reshare:not-finished", "all messages delivered, new members %v never finished", missingNew)
			break
		}
		for _, nd := range w.Nodes {
			if len(nd.Ended) != 1 {
				r.Fail("reshare:ended-count", "%s emitted %d results", nd.Name, len(nd.Ended))
			}
		}
		r.Count("resharings_completed", 1)
		pk := make([]*big.Int, 0, nn)
		for _, nd := range w.Nodes {
			if nd.Group == "new" {
				pk = append(pk, nd.PID.KeyInt())
			}
		}
		keySharingOracle(&r, curve, nt, newKeys.Views(), pk, &origPub, nil, !isEd(curve))
		for i := 0; i < oldOrdered.N(); i++ {
			if oldOrdered.Xi(i).Sign() != 0 {
				r.Fail("reshare:old-not-erased", "old member %d still holds its share after a completed resharing", i)
			}
		}
		// any t'+1 new members sign under the original key: first, last and (thorough) every subset
		subs := subsetsOfSize(nn, nt+1)
		pick := [][]int{subs[0], subs[len(subs)-1]}
		if env.Tier == "thorough" || isEd(curve) {
			pick = subs
		}
		for si, s := range pick {
			if signKS(&r, newKeys.Subset(s), origPub, nt, big.NewInt(int64(77+si)), env.Seed+int64(si), "fifo", "reshare:new-key") {
				r.Count("new_committee_signed", 1)
			}
		}
	case "silent":
		r.Count("silenced_runs", 1)
		if mon.allAcks() {
			// the run got past the commit point: whoever finished must hold a good key
			if len(missingNew) == 0 {
				pk := make([]*big.Int, 0, nn)
				for _, nd := range w.Nodes {
					if nd.Group == "new" {
						pk = append(pk, nd.PID.KeyInt())
					}
				}
				keySharingOracle(&r, curve, nt, newKeys.Views(), pk, &origPub, nil, !isEd(curve))
				r.Count("resharings_completed", 1)
			}
			r.Count("silent_after_commit", 1)
		} else {
			// stopped before the commit point: old data intact (checked at every step) and usable
			if signKS(&r, oldOrdered.Copy().Subset(firstK(t+1)), origPub, t, big.NewInt(4242), env.Seed, "fifo", "reshare:after-silence") {
				r.Count("cut_states_signed", 1)
			}
			r.Count("silent_before_commit", 1)
		}
	case "wrong-secret":
		r.Count("wrong_secret_runs", 1)
		if len(mon.acks) > 0 {
			r.Fail("reshare:ack-despite-wrong-secret", "%d new member(s) acknowledged although the dealt shares do not combine to the public key", len(mon.acks))
		}
		if newKeys.N() > 0 {
			r.Fail("reshare:output-despite-wrong-secret", "a new member emitted key material for shares of a different key")
		}
		if len(errs) == 0 {
			r.Fail("reshare:wrong-secret-unnoticed", "no new member reported an error for a dealer with a wrong secret")
		}
		for i := 0; i < oldOrdered.N(); i++ {
			if i != indexOf(order, dealer) && oldOrdered.Xi(i).Sign() == 0 {
				r.Fail("reshare:old-erased-despite-wrong-secret", "honest old member %d erased its share", i)
			}
		}
		r.Count("resharings_completed", 0)
	}
	r.NonTrivial = r.Obs["invariant_steps"] > 0
	if r.Verdict == core.Violated {
		r.Witness = strings.Join(w.Trace(250), "\n")
	}
	if fault == "none" && nn == 3 {
		r.Sample = map[string]any{"case": c.ID, "steps": len(w.Steps), "invariant_steps": r.Obs["invariant_steps"], "cut_states_signed": r.Obs["cut_states_signed"], "acks": len(mon.acks)}
	}
	return r
}

func indexOf(l []int, v int) int {
	for i, x := range l {
		if x == v {
			return i
		}
	}
	return -1
}

// c04Chain: successive resharings (each to fresh ids), then signing under the original key.
func c04Chain(r *core.Result, c core.Case, env *core.Env) {
	curve := c.P.Str("curve")
	i := c.P.Int("i")
	shapes := [][2]int{{3, 1}, {4, 2}, {3, 2}, {5, 2}, {2, 1}}
	n0, t0 := shapes[i%len(shapes)][0], shapes[i%len(shapes)][1]
	pattern := "seeded"
	if !isEd(curve) {
		n0, t0, pattern = 5, 2, "vendored"
	}
	cur, err := loadKeyset(env, curve, n0, t0, pattern, c.ID)
	if err != nil {
		r.Inconcl("key setup failed: %v", err)
		return
	}
	origPub := cur.Pub()
	curT := t0
	for hop := 0; hop < c.P.Int("len"); hop++ {
		sh := shapes[(i+hop+1)%len(shapes)]
		if !isEd(curve) {
			sh = [][2]int{{3, 1}, {3, 2}, {4, 2}}[(i+hop)%3]
		}
		olds := curT + 1 + (hop+i)%2
		if olds > cur.N() {
			olds = cur.N()
		}
		rg := rng(env.Seed, fmt.Sprint(c.ID, hop))
		old := cur.Subset(rg.Perm(cur.N())[:olds])
		newIDs := keyIDs([]string{"new", "new2", "new3"}[hop%3], sh[0], curve, env.Seed)
		w, err := old.ReshareWorld(env, env.Seed+int64(hop), curT, newIDs, sh[1], sim.ReshareOpts{OldN: cur.N()})
		if err != nil {
			r.Inconcl("cannot build hop %d: %v", hop, err)
			return
		}
		w.Run(sim.StartsThen(schedByName([]string{"fifo", "random", "lifo"}[(hop+i)%3], w)), nil)
		r.Count("invariant_steps", int64(len(w.Steps)))
		if errs := errorsOf(w); len(errs) > 0 {
			r.Fail("chain:error", "hop %d reported errors: %s", hop, core.Clip(strings.Join(errs, " | "), 400))
			return
		}
		nk, missing := old.FromEnded(w, "new")
		if len(missing) > 0 {
			r.Fail("chain:not-finished", "hop %d: new members %v never finished", hop, missing)
			return
		}
		keySharingOracle(r, curve, sh[1], nk.Views(), nil, &origPub, nil, !isEd(curve))
		if r.Verdict == core.Violated {
			return
		}
		// every old member that took part has retired: the share it was constructed with is gone (also when that share
		// came out of an earlier re-sharing, i.e. is an unreduced sum)
		for k := 0; k < old.N(); k++ {
			if old.Xi(k).Sign() != 0 {
				r.Fail("chain:old-not-erased", "hop %d: old member %d still holds its share after the re-sharing completed (share of %d bits)", hop, k, old.Xi(k).BitLen())
				return
			}
		}
		r.Count("old_shares_erased_checked", int64(old.N()))
		r.Count("resharings_completed", 1)
		cur, curT = nk.Copy(), sh[1]
	}
	if signKS(r, cur.Subset(firstK(curT+1)), origPub, curT, big.NewInt(31337), env.Seed, "random", "chain:final") {
		r.Count("new_committee_signed", 1)
		r.Count("cut_states_signed", 0)
	}
	r.NonTrivial = true
	r.Sample = map[string]any{"case": c.ID, "hops": c.P.Int("len"), "final_shape": fmt.Sprintf("(%d,%d)", cur.N(), curT)}
}
