package checks

import (
	"bytes"
	"crypto/elliptic"
	"encoding/gob"
	"encoding/json"
	"fmt"
	"math/big"
	"strings"

	"github.com/bnb-chain/tss-lib/v2/crypto"
	ecdsaresharing "github.com/bnb-chain/tss-lib/v2/ecdsa/resharing"
	ecdsasigning "github.com/bnb-chain/tss-lib/v2/ecdsa/signing"
	eddsakeygen "github.com/bnb-chain/tss-lib/v2/eddsa/keygen"
	eddsaresharing "github.com/bnb-chain/tss-lib/v2/eddsa/resharing"
	eddsasigning "github.com/bnb-chain/tss-lib/v2/eddsa/signing"
	"github.com/bnb-chain/tss-lib/v2/tss"

	"verif/core"
	"verif/ref"
)

// C17 — only valid curve points are accepted; arithmetic and encodings are exact.

func init() {
	core.Register(&core.Check{
		ID:    "C17",
		Level: "exploration",
		Rule: "per curve and per door {NewECPoint, UnFlattenECPoints, UnmarshalJSON, GobDecode, message Unmarshal helpers}: seeded genuine points must be accepted and round-trip; each of the bad pairs derived from them " +
			"{x+1, y+1, y-1, swapped, x+p, y+p, x+p&y+p, (0,0) on secp, a point of the other curve, p, 2^256-1} must be refused; Add/ScalarMult/ScalarBaseMult are compared with reference big.Int arithmetic for scalars {1,2,q-1,q+1,2^300,seeded} and the group laws on seeded triples; " +
			"EightInvEight(P+T)=P for all 8 torsion points. Class = (curve, door or law); non-trivial when >=1 genuine point accepted and >=1 bad pair refused / >=1 comparison made.",
		Assumptions: []string{"reference arithmetic in ref/ (known-answer tested)", "a coordinate pair with a coordinate outside [0,p) is not a point of the curve"},
		Gen:         c17Gen,
		Run:         c17Run,
		MinEvents:   []string{"genuine_accepted", "bad_refused", "arith_compared", "torsion_cleared"},
	})
}

func c17Gen(tier string, seed int64) []core.Case {
	var cs []core.Case
	n := tierN(tier, 150, 2000)
	for _, curve := range []string{"secp256k1", "ed25519"} {
		for _, door := range []string{"NewECPoint", "UnFlatten", "JSON", "Gob", "Messages"} {
			id := fmt.Sprintf("door/%s/%s", curve, door)
			cs = append(cs, core.Case{ID: id, Class: id, Kind: "door", Cost: 3, P: core.P{"curve": curve, "door": door, "n": n}})
		}
		for _, law := range []string{"scalarmult", "grouplaws"} {
			id := fmt.Sprintf("arith/%s/%s", curve, law)
			// the edwards arithmetic of the library and of the reference is big.Int based (about 10 ms per multiplication):
			// the thorough tier is sized by CPU cost, and the allowance follows it
			n, cost := tierN(tier, 40, 400), 5.0
			if isEd(curve) {
				n = tierN(tier, 40, 120)
			}
			if tier == "thorough" {
				cost = 40
			}
			cs = append(cs, core.Case{ID: id, Class: id, Kind: law, Cost: cost, P: core.P{"curve": curve, "n": n}})
		}
	}
	cs = append(cs, core.Case{ID: "torsion/ed25519", Class: "torsion/ed25519", Kind: "torsion", Cost: 3, P: core.P{"n": tierN(tier, 20, 200)}})
	cs = append(cs, core.Case{ID: "json-curve-tag", Class: "json-curve-tag", Kind: "jsontag", Cost: 1})
	return cs
}

func refGenuine(curve string, k *big.Int) ref.Pt { return refBaseMul(curve, k) }

func fieldP(curve string) *big.Int {
	if isEd(curve) {
		return ref.EdP
	}
	return ref.SecpP
}

type badPair struct {
	what string
	x, y *big.Int
}

func c17Bad(curve string, g ref.Pt, other ref.Pt) []badPair {
	p := fieldP(curve)
	add := func(a *big.Int, d int64) *big.Int { return new(big.Int).Add(a, big.NewInt(d)) }
	all := []badPair{
		{"x+1", add(g.X, 1), g.Y},
		{"y+1", g.X, add(g.Y, 1)},
		{"y-1", g.X, add(g.Y, -1)},
		{"swapped", g.Y, g.X},
		{"x+p", new(big.Int).Add(g.X, p), g.Y},
		{"y+p", g.X, new(big.Int).Add(g.Y, p)},
		{"x+p,y+p", new(big.Int).Add(g.X, p), new(big.Int).Add(g.Y, p)},
		{"x+2p", new(big.Int).Add(g.X, new(big.Int).Lsh(p, 1)), g.Y},
		{"other-curve", other.X, other.Y},
		{"(p,p)", new(big.Int).Set(p), new(big.Int).Set(p)},
		{"(2^256-1,y)", new(big.Int).Sub(new(big.Int).Lsh(big1, 256), big1), g.Y},
		{"(0,0)", big.NewInt(0), big.NewInt(0)},
	}
	var out []badPair
	for _, b := range all {
		if b.y.Sign() < 0 || b.x.Sign() < 0 {
			continue
		}
		// keep only pairs that the reference says are NOT canonical points of this curve
		on := false
		if isEd(curve) {
			on = ref.EdOnCurve(b.x, b.y)
		} else {
			on = ref.SecpOnCurve(b.x, b.y)
		}
		if !on {
			out = append(out, b)
		}
	}
	return out
}

// smallXPoint finds a secp256k1 point with x < 2^32 (so that x+p still fits 256 bits: the alias btcec reduces).
func smallXPoint() ref.Pt {
	for x := int64(1); ; x++ {
		if pt, ok := ref.SecpLiftX(big.NewInt(x), false); ok {
			return pt
		}
	}
}

func c17Run(c core.Case, env *core.Env) core.Result {
	r := res(c)
	switch c.Kind {
	case "door":
		c17Door(&r, c.P.Str("curve"), c.P.Str("door"), c.P.Int("n"), env.Seed)
	case "scalarmult":
		c17Scalar(&r, c.P.Str("curve"), c.P.Int("n"), env.Seed)
	case "grouplaws":
		c17Laws(&r, c.P.Str("curve"), c.P.Int("n"), env.Seed)
	case "torsion":
		c17Torsion(&r, c.P.Int("n"), env.Seed)
	case "jsontag":
		c17JSONTag(&r)
	}
	return r
}

type door func(x, y *big.Int) (px, py *big.Int, curveName string, err error)

func c17Door(r *core.Result, curve, doorName string, n int, seed int64) {
	ec := ecOf(curve)
	otherCurve := "ed25519"
	if isEd(curve) {
		otherCurve = "secp256k1"
	}
	rg := rng(seed, "c17"+curve+doorName)
	doors := map[string]door{}
	name := func(e elliptic.Curve) string { nm, _ := tss.GetCurveName(e); return string(nm) }
	switch doorName {
	case "NewECPoint":
		doors["NewECPoint"] = func(x, y *big.Int) (*big.Int, *big.Int, string, error) {
			p, err := crypto.NewECPoint(ec, x, y)
			if err != nil {
				return nil, nil, "", err
			}
			if !p.IsOnCurve() || !p.ValidateBasic() {
				return nil, nil, "", fmt.Errorf("accepted but IsOnCurve/ValidateBasic false")
			}
			return p.X(), p.Y(), name(p.Curve()), nil
		}
	case "UnFlatten":
		g := refGenuine(curve, big.NewInt(7))
		doors["UnFlatten[last]"] = func(x, y *big.Int) (*big.Int, *big.Int, string, error) {
			ps, err := crypto.UnFlattenECPoints(ec, []*big.Int{g.X, g.Y, x, y})
			if err != nil {
				return nil, nil, "", err
			}
			fl, err := crypto.FlattenECPoints(ps)
			if err != nil || len(fl) != 4 || fl[0].Cmp(g.X) != 0 || fl[1].Cmp(g.Y) != 0 {
				return nil, nil, "", fmt.Errorf("flatten(unflatten) changed the first point")
			}
			return fl[2], fl[3], name(ps[1].Curve()), nil
		}
		doors["UnFlatten(noCurveCheck=false)"] = func(x, y *big.Int) (*big.Int, *big.Int, string, error) {
			// the optional flag spelled out with its default value
			ps, err := crypto.UnFlattenECPoints(ec, []*big.Int{x, y, g.X, g.Y}, false)
			if err != nil {
				return nil, nil, "", err
			}
			return ps[0].X(), ps[0].Y(), name(ps[0].Curve()), nil
		}
		doors["UnFlatten[first]"] = func(x, y *big.Int) (*big.Int, *big.Int, string, error) {
			ps, err := crypto.UnFlattenECPoints(ec, []*big.Int{x, y, g.X, g.Y})
			if err != nil {
				return nil, nil, "", err
			}
			return ps[0].X(), ps[0].Y(), name(ps[0].Curve()), nil
		}
	case "JSON":
		doors["UnmarshalJSON"] = func(x, y *big.Int) (*big.Int, *big.Int, string, error) {
			payload, _ := json.Marshal(map[string]any{"Curve": curve, "Coords": []*big.Int{x, y}})
			var p crypto.ECPoint
			if err := json.Unmarshal(payload, &p); err != nil {
				return nil, nil, "", err
			}
			// decode(encode(decode)) must be stable
			re, err := json.Marshal(&p)
			if err != nil {
				return nil, nil, "", fmt.Errorf("re-encode failed: %v", err)
			}
			var p2 crypto.ECPoint
			if err := json.Unmarshal(re, &p2); err != nil || !p2.Equals(&p) || name(p2.Curve()) != name(p.Curve()) {
				return nil, nil, "", fmt.Errorf("json round trip unstable")
			}
			return p2.X(), p2.Y(), name(p2.Curve()), nil
		}
		// decoding into an object that already holds a validated point (an application that reloads its save data into the
		// same structs; encoding/json re-uses a non-nil target): the new coordinates are validated all the same
		doors["UnmarshalJSON(into a used object)"] = func(x, y *big.Int) (*big.Int, *big.Int, string, error) {
			g := refGenuine(curve, big.NewInt(5))
			p, err := crypto.NewECPoint(ec, g.X, g.Y)
			if err != nil {
				return nil, nil, "", fmt.Errorf("harness: %v", err)
			}
			_ = p.IsOnCurve()
			payload, _ := json.Marshal(map[string]any{"Curve": curve, "Coords": []*big.Int{x, y}})
			if err := json.Unmarshal(payload, p); err != nil {
				return nil, nil, "", err
			}
			return p.X(), p.Y(), name(p.Curve()), nil
		}
		// the legacy form without a curve tag (old save files): decoded on the process-wide default curve, validated all the same
		doors["UnmarshalJSON(no curve tag)"] = func(x, y *big.Int) (*big.Int, *big.Int, string, error) {
			prev := tss.EC()
			tss.SetCurve(ec)
			defer tss.SetCurve(prev)
			payload, _ := json.Marshal(map[string]any{"Coords": []*big.Int{x, y}})
			var p crypto.ECPoint
			if err := json.Unmarshal(payload, &p); err != nil {
				return nil, nil, "", err
			}
			if !p.IsOnCurve() || !p.ValidateBasic() {
				return nil, nil, "", fmt.Errorf("accepted but IsOnCurve/ValidateBasic false")
			}
			return p.X(), p.Y(), name(p.Curve()), nil
		}
	case "Gob":
		// Gob carries no curve tag: the decoder uses the process-global curve, which this case sets (and restores)
		prev := tss.EC()
		tss.SetCurve(ec)
		defer tss.SetCurve(prev)
		doors["GobDecode"] = func(x, y *big.Int) (*big.Int, *big.Int, string, error) {
			src := crypto.NewECPointNoCurveCheck(ec, x, y)
			var buf bytes.Buffer
			if err := gob.NewEncoder(&buf).Encode(src); err != nil {
				return nil, nil, "", fmt.Errorf("encode: %v", err)
			}
			var p crypto.ECPoint
			if err := gob.NewDecoder(&buf).Decode(&p); err != nil {
				return nil, nil, "", err
			}
			return p.X(), p.Y(), name(p.Curve()), nil
		}
		doors["GobDecode(into a used object)"] = func(x, y *big.Int) (*big.Int, *big.Int, string, error) {
			src := crypto.NewECPointNoCurveCheck(ec, x, y)
			var buf bytes.Buffer
			if err := gob.NewEncoder(&buf).Encode(src); err != nil {
				return nil, nil, "", fmt.Errorf("encode: %v", err)
			}
			g := refGenuine(curve, big.NewInt(5))
			p, err := crypto.NewECPoint(ec, g.X, g.Y)
			if err != nil {
				return nil, nil, "", fmt.Errorf("harness: %v", err)
			}
			_ = p.IsOnCurve()
			if err := gob.NewDecoder(&buf).Decode(p); err != nil {
				return nil, nil, "", err
			}
			return p.X(), p.Y(), name(p.Curve()), nil
		}
	case "Messages":
		one := []byte{1}
		if !isEd(curve) {
			doors["SignRound4Message.UnmarshalZKProof"] = func(x, y *big.Int) (*big.Int, *big.Int, string, error) {
				m := &ecdsasigning.SignRound4Message{DeCommitment: [][]byte{one}, ProofAlphaX: x.Bytes(), ProofAlphaY: y.Bytes(), ProofT: one}
				pf, err := m.UnmarshalZKProof(ec)
				if err != nil {
					return nil, nil, "", err
				}
				return pf.Alpha.X(), pf.Alpha.Y(), name(pf.Alpha.Curve()), nil
			}
			doors["SignRound6Message.UnmarshalZKProof"] = func(x, y *big.Int) (*big.Int, *big.Int, string, error) {
				m := &ecdsasigning.SignRound6Message{DeCommitment: [][]byte{one}, ProofAlphaX: x.Bytes(), ProofAlphaY: y.Bytes(), ProofT: one}
				pf, err := m.UnmarshalZKProof(ec)
				if err != nil {
					return nil, nil, "", err
				}
				return pf.Alpha.X(), pf.Alpha.Y(), name(pf.Alpha.Curve()), nil
			}
			doors["SignRound6Message.UnmarshalZKVProof"] = func(x, y *big.Int) (*big.Int, *big.Int, string, error) {
				m := &ecdsasigning.SignRound6Message{DeCommitment: [][]byte{one}, VProofAlphaX: x.Bytes(), VProofAlphaY: y.Bytes(), VProofT: one, VProofU: one}
				pf, err := m.UnmarshalZKVProof(ec)
				if err != nil {
					return nil, nil, "", err
				}
				return pf.Alpha.X(), pf.Alpha.Y(), name(pf.Alpha.Curve()), nil
			}
			doors["SignRound2Message.UnmarshalProofBobWC"] = func(x, y *big.Int) (*big.Int, *big.Int, string, error) {
				parts := make([][]byte, 12)
				for i := range parts {
					parts[i] = one
				}
				parts[10], parts[11] = x.Bytes(), y.Bytes()
				m := &ecdsasigning.SignRound2Message{C1: one, C2: one, ProofBob: parts[:10], ProofBobWc: parts}
				pf, err := m.UnmarshalProofBobWC(ec)
				if err != nil {
					return nil, nil, "", err
				}
				return pf.U.X(), pf.U.Y(), name(pf.U.Curve()), nil
			}
			doors["ecdsa DGRound1Message.UnmarshalECDSAPub"] = func(x, y *big.Int) (*big.Int, *big.Int, string, error) {
				m := &ecdsaresharing.DGRound1Message{EcdsaPubX: x.Bytes(), EcdsaPubY: y.Bytes(), VCommitment: one}
				p, err := m.UnmarshalECDSAPub(ec)
				if err != nil {
					return nil, nil, "", err
				}
				return p.X(), p.Y(), name(p.Curve()), nil
			}
		} else {
			doors["eddsa KGRound2Message2.UnmarshalZKProof"] = func(x, y *big.Int) (*big.Int, *big.Int, string, error) {
				m := &eddsakeygen.KGRound2Message2{DeCommitment: [][]byte{one}, ProofAlphaX: x.Bytes(), ProofAlphaY: y.Bytes(), ProofT: one}
				pf, err := m.UnmarshalZKProof(ec)
				if err != nil {
					return nil, nil, "", err
				}
				return pf.Alpha.X(), pf.Alpha.Y(), name(pf.Alpha.Curve()), nil
			}
			doors["eddsa SignRound2Message.UnmarshalZKProof"] = func(x, y *big.Int) (*big.Int, *big.Int, string, error) {
				m := &eddsasigning.SignRound2Message{DeCommitment: [][]byte{one}, ProofAlphaX: x.Bytes(), ProofAlphaY: y.Bytes(), ProofT: one}
				pf, err := m.UnmarshalZKProof(ec)
				if err != nil {
					return nil, nil, "", err
				}
				return pf.Alpha.X(), pf.Alpha.Y(), name(pf.Alpha.Curve()), nil
			}
			doors["eddsa DGRound1Message.UnmarshalEDDSAPub"] = func(x, y *big.Int) (*big.Int, *big.Int, string, error) {
				m := &eddsaresharing.DGRound1Message{EddsaPubX: x.Bytes(), EddsaPubY: y.Bytes(), VCommitment: one}
				p, err := m.UnmarshalEDDSAPub(ec)
				if err != nil {
					return nil, nil, "", err
				}
				return p.X(), p.Y(), name(p.Curve()), nil
			}
		}
	}
	q := orderOf(curve)
	// genuine points: seeded multiples of the base point plus a point with tiny x (alias x+p fits in 256 bits on secp256k1)
	var gens []ref.Pt
	for i := 0; i < n; i++ {
		k := randBig(rg, q)
		if k.Sign() == 0 {
			k = big.NewInt(3)
		}
		gens = append(gens, refGenuine(curve, k))
	}
	gens = append(gens, refGenuine(curve, big1), refGenuine(curve, new(big.Int).Sub(q, big1)))
	if !isEd(curve) {
		gens = append(gens, smallXPoint())
	} else {
		gens = append(gens, ref.EdId(), ref.EdTorsion()[1]) // small-order points ARE on the curve: the door must accept them
	}
	other := refGenuine(otherCurve, big.NewInt(11))
	for dn, d := range doors {
		for gi, g := range gens {
			var px, py *big.Int
			var cn string
			var err error
			if p, msg, _ := guard(func() { px, py, cn, err = d(g.X, g.Y) }); p {
				r.Fail("door-panic:"+dn, "%s panicked on a genuine point: %s", dn, msg)
				continue
			}
			if err != nil {
				r.Fail("door-refuses-genuine:"+dn, "%s refused a genuine %s point (%s,%s): %v", dn, curve, hx(g.X), hx(g.Y), err)
				continue
			}
			if px.Cmp(g.X) != 0 || py.Cmp(g.Y) != 0 || cn != curve {
				r.Fail("door-roundtrip:"+dn, "%s changed the point or curve: got (%s,%s) on %q", dn, hx(px), hx(py), cn)
			}
			r.Count("genuine_accepted", 1)
			// bad pairs derived from this genuine point (all kinds for the first 40 points and the special ones, x+1 / x+p after that)
			bads := c17Bad(curve, g, other)
			for _, b := range bads {
				if gi >= 40 && gi < len(gens)-3 && b.what != "x+1" && b.what != "x+p" && b.what != "y+p" {
					continue
				}
				var berr error
				if p, msg, _ := guard(func() { _, _, _, berr = d(b.x, b.y) }); p {
					if doorName == "Gob" && b.x.BitLen() > 0 {
						// encoding side may refuse; a panic is still a defect of the door
					}
					r.Fail("door-panic:"+dn+":"+b.what, "%s panicked on bad pair %s: %s", dn, b.what, msg)
					continue
				}
				if berr == nil || strings.HasPrefix(berr.Error(), "accepted but") {
					// (a door that hands back an invalid point with a nil error has accepted it)
					r.Fail("door-accepts:"+dn+":"+b.what, "%s accepted a pair that is not a point of %s: %s of (%s,%s)", dn, curve, b.what, hx(g.X), hx(g.Y))
				} else {
					r.Count("bad_refused", 1)
				}
			}
		}
	}
	r.NonTrivial = r.Obs["genuine_accepted"] > 0
	r.Sample = map[string]any{"case": "door/" + curve + "/" + doorName, "doors": len(doors), "genuine_points": len(gens),
		"bad_kinds": []string{"x+1", "y+1", "y-1", "swapped", "x+p", "y+p", "x+p,y+p", "x+2p", "other-curve", "(p,p)", "(2^256-1,y)", "(0,0)"}}
}

func c17Scalar(r *core.Result, curve string, n int, seed int64) {
	ec := ecOf(curve)
	q := orderOf(curve)
	rg := rng(seed, "c17scalar"+curve)
	scalars := []*big.Int{big.NewInt(1), big.NewInt(2), new(big.Int).Sub(q, big1), new(big.Int).Add(q, big1),
		new(big.Int).Lsh(big1, 300), new(big.Int).Add(new(big.Int).Lsh(q, 1), big.NewInt(5)), big.NewInt(8)}
	for i := 0; i < n; i++ {
		scalars = append(scalars, randBig(rg, q), randBits(rg, 256))
	}
	for i := 0; i < n/4+2; i++ {
		base := randBig(rg, q)
		if base.Sign() == 0 {
			continue
		}
		P := crypto.ScalarBaseMult(ec, base)
		rp := refBaseMul(curve, base)
		if !samePt(P, rp) {
			r.Fail("basemult", "ScalarBaseMult(%s) differs from reference", hx(base))
		}
		r.Count("arith_compared", 1)
		for _, k := range scalars {
			km := new(big.Int).Mod(k, q)
			if km.Sign() == 0 {
				continue
			}
			want := refMul(curve, k, rp)
			if refIsId(curve, want) {
				continue
			}
			var got *crypto.ECPoint
			if p, msg, _ := guard(func() { got = P.ScalarMult(k) }); p {
				r.Fail("scalarmult-panic", "ScalarMult(%s) panicked: %s", hx(k), msg)
				continue
			}
			if !samePt(got, want) {
				r.Fail("scalarmult", "P.ScalarMult(%s) differs from the reference (scalar class %d bits)", hx(k), k.BitLen())
			}
			gb := crypto.ScalarBaseMult(ec, k)
			if !samePt(gb, refBaseMul(curve, k)) {
				r.Fail("basemult", "ScalarBaseMult(%s) differs from reference", hx(k))
			}
			r.Count("arith_compared", 2)
		}
	}
	r.NonTrivial = r.Obs["arith_compared"] > 0
	r.Sample = map[string]any{"case": "arith/" + curve + "/scalarmult", "scalar_classes": []string{"1", "2", "q-1", "q+1", "2^300", "2q+5", "8", "seeded<q", "seeded 256-bit"}}
}

func c17Laws(r *core.Result, curve string, n int, seed int64) {
	ec := ecOf(curve)
	q := orderOf(curve)
	rg := rng(seed, "c17laws"+curve)
	pt := func() (*crypto.ECPoint, *big.Int) {
		for {
			k := randBig(rg, q)
			if k.Sign() != 0 {
				return crypto.ScalarBaseMult(ec, k), k
			}
		}
	}
	for i := 0; i < n; i++ {
		A, a := pt()
		B, b := pt()
		C, _ := pt()
		ab, e1 := A.Add(B)
		ba, e2 := B.Add(A)
		if e1 != nil || e2 != nil {
			continue
		}
		if !ab.Equals(ba) || !samePt(ab, refPt(ba)) {
			r.Fail("commutative", "A+B != B+A")
		}
		// Equals is equality of both coordinates (and of the curve)
		fp := fieldP(curve)
		if cp, err := crypto.NewECPoint(ecOf(curve), new(big.Int).Set(A.X()), new(big.Int).Set(A.Y())); err != nil || !A.Equals(cp) || !cp.Equals(A) {
			r.Fail("equals:copy", "a point does not equal a copy of itself")
		}
		if A.Y().Sign() != 0 {
			if flipY, err := crypto.NewECPoint(ec, new(big.Int).Set(A.X()), new(big.Int).Sub(fp, A.Y())); err == nil && (A.Equals(flipY) || flipY.Equals(A)) {
				r.Fail("equals:same-x", "Equals holds for (x,y) and (x,p-y)")
			}
		}
		if isEd(curve) && A.X().Sign() != 0 {
			if flipX, err := crypto.NewECPoint(ec, new(big.Int).Sub(fp, A.X()), new(big.Int).Set(A.Y())); err == nil && (A.Equals(flipX) || flipX.Equals(A)) {
				r.Fail("equals:same-y", "Equals holds for (x,y) and (p-x,y)")
			}
		}
		if A.Equals(B) || A.Equals(nil) {
			r.Fail("equals:different", "Equals holds for two different points / for nil")
		}
		// A + (-A): the identity. On secp256k1 it has no affine representation (an error is the right answer); on
		// ed25519 it is (0,1). Either way no invalid point may come back with a nil error.
		negA := refNeg(curve, refPt(A))
		if nA, err := crypto.NewECPoint(ec, negA.X, negA.Y); err == nil {
			sum, err := A.Add(nA)
			switch {
			case err != nil:
				if isEd(curve) {
					r.Fail("add:inverse", "A + (-A) fails on ed25519: %v", err)
				}
			case sum == nil || !sum.IsOnCurve() || !sum.ValidateBasic():
				r.Fail("add:inverse-invalid-point", "A + (-A) returned an invalid point with a nil error")
			case isEd(curve) && (sum.X().Sign() != 0 || sum.Y().Cmp(big1) != 0):
				r.Fail("add:inverse", "A + (-A) is not the identity on ed25519")
			case !isEd(curve):
				r.Fail("add:inverse", "A + (-A) returned a point on secp256k1")
			}
			r.Count("inverse_additions", 1)
		} else {
			r.Fail("neg", "-A refused by NewECPoint: %v", err)
		}
		if !samePt(ab, refAdd(curve, refPt(A), refPt(B))) {
			r.Fail("add", "A+B differs from the reference")
		}
		abc1, e3 := ab.Add(C)
		bc, e4 := B.Add(C)
		if e3 == nil && e4 == nil {
			abc2, e5 := A.Add(bc)
			if e5 == nil && !abc1.Equals(abc2) {
				r.Fail("associative", "(A+B)+C != A+(B+C)")
			}
		}
		// doubling through Add
		aa, e6 := A.Add(A)
		if e6 == nil && !aa.Equals(A.ScalarMult(big2)) {
			r.Fail("double", "A+A != 2A")
		}
		// distributivity: k(A+B) = kA + kB ; (a+b)G = aG + bG
		k := randBig(rg, q)
		if k.Sign() != 0 {
			l := ab.ScalarMult(k)
			rr, e7 := A.ScalarMult(k).Add(B.ScalarMult(k))
			if e7 == nil && !l.Equals(rr) {
				r.Fail("distributive", "k(A+B) != kA+kB")
			}
		}
		s := new(big.Int).Add(a, b)
		s.Mod(s, q)
		if s.Sign() != 0 && !crypto.ScalarBaseMult(ec, s).Equals(ab) {
			r.Fail("hom", "(a+b)G != aG+bG")
		}
		r.Count("arith_compared", 6)
	}
	r.NonTrivial = r.Obs["arith_compared"] > 0
}

func c17Torsion(r *core.Result, n int, seed int64) {
	ec := tss.Edwards()
	rg := rng(seed, "c17torsion")
	tor := ref.EdTorsion()
	for i := 0; i < n; i++ {
		k := randBig(rg, ref.EdL)
		if k.Sign() == 0 {
			continue
		}
		P := ref.EdBaseMul(k)
		for ti, T := range tor {
			S := ref.EdAdd(P, T)
			lp, err := crypto.NewECPoint(ec, S.X, S.Y)
			if err != nil {
				r.Fail("torsion-door", "NewECPoint refused P+T%d (a curve point)", ti)
				continue
			}
			got := lp.EightInvEight()
			if !samePt(got, P) {
				r.Fail("eightinveight", "EightInvEight(P+T%d) != P", ti)
			}
			r.Count("torsion_cleared", 1)
		}
	}
	// pure torsion points map to the identity
	for ti, T := range tor {
		lp, err := crypto.NewECPoint(ec, T.X, T.Y)
		if err != nil {
			r.Fail("torsion-door", "NewECPoint refused torsion point %d", ti)
			continue
		}
		var got *crypto.ECPoint
		if p, msg, _ := guard(func() { got = lp.EightInvEight() }); p {
			r.Fail("eightinveight-panic", "EightInvEight(T%d) panicked: %s", ti, msg)
			continue
		}
		if !(got.X().Sign() == 0 && got.Y().Cmp(big1) == 0) {
			r.Fail("eightinveight-torsion", "EightInvEight(T%d) is not the identity", ti)
		}
		r.Count("torsion_cleared", 1)
	}
	r.NonTrivial = true
	r.Sample = map[string]any{"case": "torsion/ed25519", "torsion_points": 8, "prime_order_points": n}
}

// c17JSONTag: the curve named in the JSON decides the curve; a point tagged with the other curve is refused;
// an untagged payload falls back to the global curve (documented forward-compat behaviour).
// c17Registry: a curve name registered a second time resolves to the newer curve only; the older curve is then unknown
// again (no name, not the "same curve" as the newer one), and a point on it is not written out under that name.
func c17Registry(r *core.Result) {
	const nm = tss.CurveName("verif-reregistered")
	a, b := elliptic.P224(), elliptic.P384()
	tss.RegisterCurve(nm, a)
	if got, ok := tss.GetCurveName(a); !ok || got != nm {
		r.Fail("registry:first", "GetCurveName of a freshly registered curve = (%q, %v)", got, ok)
	}
	tss.RegisterCurve(nm, b)
	if c, ok := tss.GetCurveByName(nm); !ok || c != b {
		r.Fail("registry:latest", "the re-registered name does not resolve to the newer curve")
	}
	if got, ok := tss.GetCurveName(a); ok {
		r.Fail("registry:stale-name", "the replaced curve still has the name %q, which resolves to another curve", got)
	}
	if tss.SameCurve(a, b) {
		r.Fail("registry:same-curve", "SameCurve reports two different curves as the same after one replaced the other under a name")
	}
	ap := a.Params()
	pt := crypto.NewECPointNoCurveCheck(a, ap.Gx, ap.Gy)
	if bz, err := json.Marshal(pt); err == nil {
		var back crypto.ECPoint
		if err2 := json.Unmarshal(bz, &back); err2 == nil && back.Curve() != a {
			r.Fail("registry:encoding", "a point on the replaced curve was written out under a name that reads back as another curve: %s", core.Clip(string(bz), 120))
		}
	}
	r.Count("registry_checks", 5)
}

func c17JSONTag(r *core.Result) {
	c17Registry(r)
	sp := refGenuine("secp256k1", big.NewInt(9))
	ep := refGenuine("ed25519", big.NewInt(9))
	try := func(curve string, p ref.Pt) (*crypto.ECPoint, error) {
		payload, _ := json.Marshal(map[string]any{"Curve": curve, "Coords": []*big.Int{p.X, p.Y}})
		var out crypto.ECPoint
		err := json.Unmarshal(payload, &out)
		return &out, err
	}
	if _, err := try("ed25519", sp); err == nil {
		r.Fail("json-wrong-tag", "secp256k1 point accepted under the ed25519 tag")
	} else {
		r.Count("bad_refused", 1)
	}
	if _, err := try("secp256k1", ep); err == nil {
		r.Fail("json-wrong-tag", "ed25519 point accepted under the secp256k1 tag")
	} else {
		r.Count("bad_refused", 1)
	}
	if _, err := try("nosuchcurve", sp); err == nil {
		r.Fail("json-unknown-tag", "unknown curve tag accepted")
	} else {
		r.Count("bad_refused", 1)
	}
	for _, cp := range []struct {
		c string
		p ref.Pt
	}{{"secp256k1", sp}, {"ed25519", ep}} {
		got, err := try(cp.c, cp.p)
		if err != nil {
			r.Fail("json-refuses", "genuine %s point refused: %v", cp.c, err)
			continue
		}
		nm, _ := tss.GetCurveName(got.Curve())
		if string(nm) != cp.c {
			r.Fail("json-curve", "decoded curve %q, want %q", nm, cp.c)
		}
		b, _ := json.Marshal(got)
		if !bytes.Contains(b, []byte(cp.c)) {
			r.Fail("json-tag-missing", "re-encoded JSON lacks the curve tag")
		}
		r.Count("genuine_accepted", 1)
	}
	r.NonTrivial = true
}
