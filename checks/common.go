// Package checks holds one file per property: case generation (deterministic in tier+seed),
// the workload that drives the real tss-lib code, and the monitor/oracle over what was observed.
package checks

import (
	"crypto/sha256"
	"encoding/binary"
	"encoding/json"
	"fmt"
	"math/big"
	mrand "math/rand"
	"os"
	"path/filepath"
	"runtime/debug"
	"sync"

	"github.com/bnb-chain/tss-lib/v2/crypto"
	"github.com/bnb-chain/tss-lib/v2/ecdsa/keygen"
	"github.com/bnb-chain/tss-lib/v2/tss"

	"verif/core"
	"verif/ref"
)

var (
	big0 = big.NewInt(0)
	big1 = big.NewInt(1)
	big2 = big.NewInt(2)
	secQ = tss.S256().Params().N
	edQ  = tss.Edwards().Params().N
)

// rng returns a PRNG determined by (seed, label): case lists and drawn values never depend on time.
func rng(seed int64, label string) *mrand.Rand {
	h := sha256.Sum256([]byte(fmt.Sprintf("%d/%s", seed, label)))
	return mrand.New(mrand.NewSource(int64(binary.LittleEndian.Uint64(h[:8]))))
}

func randBig(r *mrand.Rand, below *big.Int) *big.Int {
	if below.Sign() <= 0 {
		return new(big.Int)
	}
	b := make([]byte, (below.BitLen()+7)/8+8)
	r.Read(b)
	v := new(big.Int).SetBytes(b)
	return v.Mod(v, below)
}

func randBits(r *mrand.Rand, bits int) *big.Int {
	return randBig(r, new(big.Int).Lsh(big1, uint(bits)))
}

func randBytes(r *mrand.Rand, n int) []byte {
	b := make([]byte, n)
	r.Read(b)
	return b
}

// guard runs f and converts a panic into (true, message, stack).
func guard(f func()) (panicked bool, msg string, stack string) {
	defer func() {
		if r := recover(); r != nil {
			panicked, msg, stack = true, fmt.Sprint(r), string(debug.Stack())
		}
	}()
	f()
	return
}

// ---- vendored parameter sets (test/_ecdsa_fixtures) ----

var (
	fixOnce sync.Once
	fixData []keygen.LocalPartySaveData
	fixErr  error
)

// Fixtures loads the 5 vendored ECDSA key-share files (a 5-party, t=2 key with pre-parameters).
func Fixtures(repo string) ([]keygen.LocalPartySaveData, error) {
	fixOnce.Do(func() {
		for i := 0; i < 5; i++ {
			b, err := os.ReadFile(filepath.Join(repo, "test", "_ecdsa_fixtures", fmt.Sprintf("keygen_data_%d.json", i)))
			if err != nil {
				fixErr = err
				return
			}
			var d keygen.LocalPartySaveData
			if err := json.Unmarshal(b, &d); err != nil {
				fixErr = err
				return
			}
			for _, p := range d.BigXj {
				p.SetCurve(tss.S256())
			}
			d.ECDSAPub.SetCurve(tss.S256())
			fixData = append(fixData, d)
		}
	})
	return fixData, fixErr
}

func PreParams(repo string) ([]keygen.LocalPreParams, error) {
	f, err := Fixtures(repo)
	if err != nil {
		return nil, err
	}
	out := make([]keygen.LocalPreParams, len(f))
	for i := range f {
		out[i] = f[i].LocalPreParams
	}
	return out, nil
}

// ---- conversions between library points and reference points ----

func refPt(p *crypto.ECPoint) ref.Pt {
	return ref.Pt{X: p.X(), Y: p.Y()}
}

func samePt(p *crypto.ECPoint, r ref.Pt) bool {
	return !r.Inf && p.X().Cmp(r.X) == 0 && p.Y().Cmp(r.Y) == 0
}

func isEd(name string) bool { return name == "ed25519" }

func refBaseMul(curve string, k *big.Int) ref.Pt {
	if isEd(curve) {
		return ref.EdBaseMul(k)
	}
	return ref.SecpBaseMul(k)
}

func refMul(curve string, k *big.Int, p ref.Pt) ref.Pt {
	if isEd(curve) {
		return ref.EdMul(k, p)
	}
	return ref.SecpMul(k, p)
}

func refAdd(curve string, a, b ref.Pt) ref.Pt {
	if isEd(curve) {
		return ref.EdAdd(a, b)
	}
	return ref.SecpAdd(a, b)
}

func refIsId(curve string, a ref.Pt) bool {
	if isEd(curve) {
		return ref.EdIsId(a)
	}
	return a.Inf
}

func orderOf(curve string) *big.Int {
	if isEd(curve) {
		return ref.EdL
	}
	return ref.SecpN
}

func hx(v *big.Int) string {
	if v == nil {
		return "nil"
	}
	s := v.Text(16)
	if len(s) > 40 {
		return fmt.Sprintf("%s…%s(%db)", s[:12], s[len(s)-8:], v.BitLen())
	}
	return s
}

func res(c core.Case) core.Result {
	return core.Result{ID: c.ID, Class: c.Class, Verdict: core.Held}
}

func tierN(tier string, quick, thorough int) int {
	if tier == "thorough" {
		return thorough
	}
	return quick
}

func refNeg(curve string, a ref.Pt) ref.Pt {
	if isEd(curve) {
		return ref.EdNeg(a)
	}
	return ref.SecpNeg(a)
}

// runVariants appends, for every `every`-th case of the given kinds, two copies that run the same session under another
// legal environment: the sender's message objects handed to all recipients through Party.Update (an in-process transport
// that runs several parties and does not serialise), and the deprecated process-wide default curve set to the curve the
// session does NOT use (a process that serves both curves).
func runVariants(cs []core.Case, every int, kinds ...string) []core.Case {
	isKind := map[string]bool{}
	for _, k := range kinds {
		isKind[k] = true
	}
	out := cs
	n := 0
	for _, c := range cs {
		if !isKind[c.Kind] {
			continue
		}
		n++
		if n%every != 1 && every > 1 {
			continue
		}
		for _, v := range []string{"shared-objects", "other-default-curve"} {
			cp := c
			cp.ID, cp.Class = c.ID+"/"+v, c.Class+"/"+v
			cp.P = core.P{}
			for k, val := range c.P {
				cp.P[k] = val
			}
			if v == "shared-objects" {
				cp.P["objects"] = true
			} else {
				cp.P["defcurve"] = "other"
			}
			out = append(out, cp)
		}
		// signing only: the party count handed to tss.NewParameters is the committee size of the key, or one more than
		// the number of signers, instead of the number of signers (the signing code has no use for it)
		if nn, ok := c.P["n"]; ok && c.Kind == "sign" {
			if sg, ok2 := c.P["signers"].([]int); ok2 {
				pc := 0
				if v, isInt := nn.(int); isInt {
					pc = v
				}
				if pc == len(sg) {
					pc = len(sg) + 1
				}
				cp := c
				cp.ID, cp.Class = fmt.Sprintf("%s/party-count=%d", c.ID, pc), fmt.Sprintf("%s/party-count=%d", c.Class, pc)
				cp.P = core.P{}
				for k, val := range c.P {
					cp.P[k] = val
				}
				cp.P["pcount"] = pc
				out = append(out, cp)
			}
		}
	}
	return out
}

// setDefaultCurve flips the process-wide default curve to the one the session does not use when the case asks for it;
// the returned function restores it.
func setDefaultCurve(p core.P, sessionCurve string) func() {
	if p.Str("defcurve") != "other" {
		return func() {}
	}
	prev := tss.EC()
	if isEd(sessionCurve) {
		tss.SetCurve(tss.S256())
	} else {
		tss.SetCurve(tss.Edwards())
	}
	return func() { tss.SetCurve(prev) }
}
