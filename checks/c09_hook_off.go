//go:build !verif

package checks

import "github.com/bnb-chain/tss-lib/v2/tss"

func setVerifHook(f func(point string, p tss.Party, m tss.ParsedMessage)) bool { return false }
