package checks

import (
	"crypto/elliptic"
	"crypto/rand"
	"fmt"
	"math/big"
	"sync"

	"github.com/bnb-chain/tss-lib/v2/common"
	"github.com/bnb-chain/tss-lib/v2/crypto"
	"github.com/bnb-chain/tss-lib/v2/crypto/dlnproof"
	"github.com/bnb-chain/tss-lib/v2/crypto/facproof"
	"github.com/bnb-chain/tss-lib/v2/crypto/modproof"
	"github.com/bnb-chain/tss-lib/v2/crypto/mta"
	"github.com/bnb-chain/tss-lib/v2/crypto/paillier"
	"github.com/bnb-chain/tss-lib/v2/crypto/schnorr"
	"github.com/bnb-chain/tss-lib/v2/tss"

	"verif/core"
	"verif/ref"
)

// C11 — verifiers reject proofs of false statements and out-of-range secrets.
// C13 — MtA yields additive shares of the product.

func init() {
	core.Register(&core.Check{
		ID:    "C11",
		Level: "exploration",
		Rule: "enumerated false-statement families, each with sizes from just outside the bound to far outside, on the vendored parameter sets: wrong discrete log (Schnorr, Schnorr-V s / l); h2 outside <h1> (h2=-h1^a, h2 random) with the library prover; " +
			"Paillier moduli 3*P', 7*P', 997*P' (all N-th roots exist: only trial division can reject) and p*q with p | q-1 (library prover guarded + best-effort transcript); mod-proof transcripts for N prime / even / P^2 / P*Q with P=1 mod 4 / three primes; " +
			"fac proof for N with a 200-bit, 400-bit, 16-bit factor; Alice range proof for m in {q^3+1, 2q^3, q^4} and an equation-satisfying transcript with s1 just above q^3; Bob with x in {q^3+1,2q^3}, y in {q^7+1,2q^7}, Bob-WC with X != xG. " +
			"Every Verify must return false. Class = (family, size, parameter set); non-trivial when the verifier was reached with a complete transcript.",
		Assumptions: []string{"soundness against arbitrary provers is out of reach of runtime monitoring: the claim is exactly the families listed", "a prover panic on a bad witness is not a verifier verdict (the transcript builder is used instead)"},
		Gen:         c11Gen,
		Run:         c11Run,
		MinEvents:   []string{"false_statements_rejected", "control_true_statements_accepted"},
	})
	core.Register(&core.Check{
		ID:    "C13",
		Level: "exploration",
		Rule: "MtA and MtAwc between ordered pairs of vendored parameter sets (quick 6 pairs, thorough all 20), (a,b) in {0,1,q-1,seeded}^2 (b != 0 for wc): alpha+beta = a*b mod q with every embedded proof accepted; wc with B != bG must be refused; " +
			"cA altered at Bob and cB altered at Alice {+1, *2 mod N^2, seeded random, other valid ciphertext} must be refused with no share returned. Class = (pair, variant, a class, b class); non-trivial when both shares were produced and compared.",
		Gen:       c13Gen,
		Run:       c13Run,
		MinEvents: []string{"exchanges_compared", "alterations_refused"},
	})
}

// ---------------------------------------------------------------- C11

func c11Gen(tier string, seed int64) []core.Case {
	var cs []core.Case
	add := func(kind, sub string, cost float64, p core.P) {
		id := kind + "/" + sub
		if p == nil {
			p = core.P{}
		}
		cs = append(cs, core.Case{ID: id, Class: id, Kind: kind, P: p, Cost: cost})
	}
	sets := []int{0, 2}
	if tier == "thorough" {
		sets = []int{0, 1, 2, 3, 4}
	}
	for _, curve := range []string{"secp256k1", "ed25519"} {
		add("schnorr-wrong-dlog", curve, 0.5, core.P{"curve": curve, "n": tierN(tier, 20, 200)})
	}
	for _, a := range sets {
		add("dln-outside-group", fmt.Sprint("set", a), 3, core.P{"a": a})
		add("alice-range", fmt.Sprint("set", a), 4, core.P{"a": a, "b": (a + 1) % 5})
		add("bob-range", fmt.Sprint("set", a), 8, core.P{"a": a, "b": (a + 1) % 5})
		add("fac-small-factor", fmt.Sprint("verifier", a), 4, core.P{"a": a})
	}
	for _, sp := range []int{3, 7, 997} {
		add("paillier-small-prime", fmt.Sprint(sp), 2, core.P{"sp": sp, "bits": tierN(tier, 512, 1024)})
	}
	// every odd prime below 1000 (the bound of the verifier's trial division), one modulus each
	add("paillier-small-prime", "every-prime-below-1000", 6, core.P{"sp": 0, "bits": 512})
	add("paillier-gcd", "p|q-1", 3, core.P{"bits": tierN(tier, 256, 512)})
	for _, fam := range []string{"prime", "even", "P^2", "P=1mod4", "three-primes", "P=Q-swapped-roles"} {
		add("mod-bad-modulus", fam, 4, core.P{"fam": fam, "bits": tierN(tier, 512, 1024)})
	}
	add("paillier-domain", "subset", 1, nil)
	return cs
}

func c11Run(c core.Case, env *core.Env) core.Result {
	r := res(c)
	rg := rng(env.Seed, c.ID)
	rejected := func(what string, f func() bool) {
		var ok bool
		if p, msg, st := guard(func() { ok = f() }); p {
			r.Fail("verifier-panic:"+c.Kind+":"+what, "verifier panicked on %s: %s", what, msg)
			r.Witness = st
			return
		}
		if ok {
			r.Fail("accepted:"+c.Kind+":"+what, "verifier ACCEPTED a false statement: %s", what)
			return
		}
		r.Count("false_statements_rejected", 1)
	}
	control := func(what string, f func() bool) {
		var ok bool
		if p, msg, _ := guard(func() { ok = f() }); p || !ok {
			r.Inconcl("control (true statement) for %s not accepted: %s", what, msg)
			return
		}
		r.Count("control_true_statements_accepted", 1)
	}
	sess := []byte("c11-session\x03")
	switch c.Kind {
	case "schnorr-wrong-dlog":
		curve := c.P.Str("curve")
		ec := ecOf(curve)
		q := ec.Params().N
		for i := 0; i < c.P.Int("n"); i++ {
			x := randBig(rg, q)
			if x.Sign() == 0 {
				continue
			}
			var d *big.Int
			switch i % 4 {
			case 0:
				d = big.NewInt(1)
			case 1:
				d = new(big.Int).Sub(q, big1)
			case 2:
				d = randBig(rg, q)
			default:
				d = new(big.Int).Lsh(big1, uint(1+rg.Intn(250)))
			}
			x2 := new(big.Int).Mod(new(big.Int).Add(x, d), q)
			if x2.Sign() == 0 || x2.Cmp(x) == 0 {
				continue
			}
			X := crypto.ScalarBaseMult(ec, x)
			X2 := crypto.ScalarBaseMult(ec, x2)
			// prover knows x but claims X2
			if pf, err := schnorr.NewZKProof(sess, x, X2, rand.Reader); err == nil {
				rejected("schnorr: witness x, statement (x+d)G", func() bool { return pf.Verify(sess, X2) })
			}
			if pf, err := schnorr.NewZKProof(sess, x, X, rand.Reader); err == nil {
				control("schnorr", func() bool { return pf.Verify(sess, X) })
				rejected("schnorr: proof for xG shown for (x+d)G", func() bool { return pf.Verify(sess, X2) })
			}
			// first move repaired after the challenge: the prover knows x, claims the point 2(xG), runs the honest prover for
			// that claim (T = a + c*x) and then publishes Alpha' = T*G - 2*(c*xG) instead of a*G. c*xG = T*G - Alpha is
			// public, so no discrete logarithm is needed. Works exactly when the challenge does not depend on Alpha.
			if X2x, err := X.Add(X); err == nil {
				if pf, err := schnorr.NewZKProof(sess, x, X2x, rand.Reader); err == nil && new(big.Int).Mod(pf.T, q).Sign() != 0 {
					tG := crypto.ScalarBaseMult(ec, pf.T)
					if E, err := tG.Add(negPoint(ec, pf.Alpha)); err == nil {
						if E2, err := E.Add(E); err == nil {
							if A2, err := tG.Add(negPoint(ec, E2)); err == nil {
								forged := &schnorr.ZKProof{Alpha: A2, T: pf.T}
								rejected("schnorr: statement 2(xG), first move recomputed from the response", func() bool { return forged.Verify(sess, X2x) })
							}
						}
					}
				}
			}
			// Schnorr-V: V = sR + lG, wrong s or wrong l
			s, l := randBig(rg, q), randBig(rg, q)
			if s.Sign() == 0 || l.Sign() == 0 {
				continue
			}
			R := crypto.ScalarBaseMult(ec, x)
			V, err := R.ScalarMult(s).Add(crypto.ScalarBaseMult(ec, l))
			if err != nil {
				continue
			}
			if pf, err := schnorr.NewZKVProof(sess, V, R, x2, l, rand.Reader); err == nil {
				rejected("schnorrV: wrong s", func() bool { return pf.Verify(sess, V, R) })
			}
			if pf, err := schnorr.NewZKVProof(sess, V, R, s, x2, rand.Reader); err == nil {
				rejected("schnorrV: wrong l", func() bool { return pf.Verify(sess, V, R) })
			}
			// the same for Schnorr-V: claim 2V with the witness of V, then Alpha' = T*R + U*G - 2*(c*V), c*V = T*R + U*G - Alpha
			if V2, err := V.Add(V); err == nil {
				if pf, err := schnorr.NewZKVProof(sess, V2, R, s, l, rand.Reader); err == nil && new(big.Int).Mod(pf.T, q).Sign() != 0 && new(big.Int).Mod(pf.U, q).Sign() != 0 {
					if lhs, err := R.ScalarMult(pf.T).Add(crypto.ScalarBaseMult(ec, pf.U)); err == nil {
						if E, err := lhs.Add(negPoint(ec, pf.Alpha)); err == nil {
							if E2, err := E.Add(E); err == nil {
								if A2, err := lhs.Add(negPoint(ec, E2)); err == nil {
									forged := &schnorr.ZKVProof{Alpha: A2, T: pf.T, U: pf.U}
									rejected("schnorrV: statement 2V, first move recomputed from the responses", func() bool { return forged.Verify(sess, V2, R) })
								}
							}
						}
					}
				}
			}
			if pf, err := schnorr.NewZKVProof(sess, V, R, s, l, rand.Reader); err == nil {
				control("schnorrV", func() bool { return pf.Verify(sess, V, R) })
				rejected("schnorrV: proof shown for V+G", func() bool {
					V2, err := V.Add(crypto.ScalarBaseMult(ec, big1))
					if err != nil {
						return false
					}
					return pf.Verify(sess, V2, R)
				})
			}
		}
	case "dln-outside-group":
		pp, err := paramSet(env, c.P.Int("a"))
		if err != nil {
			r.Inconcl("%v", err)
			return r
		}
		N := pp.NTildei
		control("dln", func() bool {
			return dlnproof.NewDLNProof(pp.H1i, pp.H2i, pp.Alpha, pp.P, pp.Q, N, rand.Reader).Verify(pp.H1i, pp.H2i, N)
		})
		neg := new(big.Int).Sub(N, pp.H2i) // -h1^alpha: Jacobi +1 but not a square, hence outside <h1>
		rejected("dln: h2 = -h1^alpha, prover uses alpha", func() bool {
			return dlnproof.NewDLNProof(pp.H1i, neg, pp.Alpha, pp.P, pp.Q, N, rand.Reader).Verify(pp.H1i, neg, N)
		})
		for i := 0; i < 3; i++ {
			h2 := common.GetRandomPositiveRelativelyPrimeInt(rand.Reader, N)
			rejected("dln: h2 random unit, prover uses alpha", func() bool {
				return dlnproof.NewDLNProof(pp.H1i, h2, pp.Alpha, pp.P, pp.Q, N, rand.Reader).Verify(pp.H1i, h2, N)
			})
		}
		// wrong exponent, right group
		rejected("dln: h2 in <h1> but prover uses alpha+1", func() bool {
			return dlnproof.NewDLNProof(pp.H1i, pp.H2i, new(big.Int).Add(pp.Alpha, big1), pp.P, pp.Q, N, rand.Reader).Verify(pp.H1i, pp.H2i, N)
		})
		// degenerate generators
		for what, hs := range map[string][2]*big.Int{"h1=1": {big1, pp.H2i}, "h2=1": {pp.H1i, big1}, "h1=h2": {pp.H1i, pp.H1i}, "h1=0": {big0, pp.H2i}, "h2=N": {pp.H1i, N}} {
			h := hs
			rejected("dln: "+what, func() bool {
				return dlnproof.NewDLNProof(h[0], h[1], big1, pp.P, pp.Q, N, rand.Reader).Verify(h[0], h[1], N)
			})
		}
	case "paillier-small-prime":
		if c.P.Int("sp") == 0 {
			pub := crypto.ScalarBaseMult(tss.S256(), big.NewInt(99))
			k := big.NewInt(5)
			for v := int64(3); v < 1000; v += 2 {
				sp := big.NewInt(v)
				if !sp.ProbablyPrime(20) {
					continue
				}
				var Pp, N, phi *big.Int
				for {
					Pp, _ = rand.Prime(rand.Reader, 512-sp.BitLen())
					N = new(big.Int).Mul(sp, Pp)
					phi = new(big.Int).Mul(new(big.Int).Sub(sp, big1), new(big.Int).Sub(Pp, big1))
					if N.BitLen() == 512 && new(big.Int).GCD(nil, nil, N, phi).Cmp(big1) == 0 {
						break
					}
				}
				sk := &paillier.PrivateKey{PublicKey: paillier.PublicKey{N: N}, PhiN: phi, LambdaN: phi, P: sp, Q: Pp}
				pf := sk.Proof(k, pub)
				complete := true
				for i, x := range paillier.GenerateXs(paillier.ProofIters, k, N, pub) {
					if new(big.Int).Exp(pf[i], N, N).Cmp(new(big.Int).Mod(x, N)) != 0 {
						complete = false
					}
				}
				if !complete {
					continue
				}
				r.Count("complete_transcripts", 1)
				r.AddSet("small_primes_tried", fmt.Sprint(v))
				rejected(fmt.Sprintf("paillier key proof for N = %d * P'", v), func() bool { ok, err := pf.Verify(N, k, pub); return ok && err == nil })
			}
			break
		}
		sp := big.NewInt(int64(c.P.Int("sp")))
		bits := c.P.Int("bits")
		var Pp *big.Int
		for {
			// N must have exactly `bits` bits (a multiple of 256): GenerateXs draws ceil(bits/256)*256-bit candidates and
			// keeps those below N, so any other size makes prover and verifier spin (that is C06's finding, not this family)
			Pp, _ = rand.Prime(rand.Reader, bits-sp.BitLen())
			if new(big.Int).Mul(sp, Pp).BitLen() != bits {
				continue
			}
			// gcd(N, phi) must be 1 so that every x has an N-th root and only trial division can reject
			N := new(big.Int).Mul(sp, Pp)
			phi := new(big.Int).Mul(new(big.Int).Sub(sp, big1), new(big.Int).Sub(Pp, big1))
			if new(big.Int).GCD(nil, nil, N, phi).Cmp(big1) == 0 {
				break
			}
		}
		N := new(big.Int).Mul(sp, Pp)
		phi := new(big.Int).Mul(new(big.Int).Sub(sp, big1), new(big.Int).Sub(Pp, big1))
		sk := &paillier.PrivateKey{PublicKey: paillier.PublicKey{N: N}, PhiN: phi, LambdaN: phi, P: sp, Q: Pp}
		pub := crypto.ScalarBaseMult(tss.S256(), big.NewInt(99))
		k := big.NewInt(5)
		pf := sk.Proof(k, pub)
		// sanity: all 13 equations hold, so the transcript is complete
		xs := paillier.GenerateXs(paillier.ProofIters, k, N, pub)
		for i := range xs {
			if new(big.Int).Exp(pf[i], N, N).Cmp(new(big.Int).Mod(xs[i], N)) != 0 {
				r.Inconcl("transcript incomplete: equation %d does not hold", i)
				return r
			}
		}
		r.Count("complete_transcripts", 1)
		rejected(fmt.Sprintf("paillier key proof for N = %d * P'", sp.Int64()), func() bool { ok, err := pf.Verify(N, k, pub); return ok && err == nil })
		// control: a vendored key
		fx, err := Fixtures(env.Repo)
		if err == nil {
			control("paillier-key", func() bool {
				ok, e := fx[0].PaillierSK.Proof(k, pub).Verify(fx[0].PaillierSK.N, k, pub)
				return ok && e == nil
			})
		}
	case "paillier-gcd":
		bits := c.P.Int("bits")
		var p, q, N *big.Int
		for N == nil || N.BitLen()%256 != 0 { // see paillier-small-prime: the modulus size must be a multiple of 256 bits
			p, _ = rand.Prime(rand.Reader, bits-4)
			for kk := int64(2); ; kk += 2 {
				q = new(big.Int).Mul(p, big.NewInt(kk))
				q.Add(q, big1)
				if q.ProbablyPrime(20) {
					break
				}
			}
			N = new(big.Int).Mul(p, q)
		}
		phi := new(big.Int).Mul(new(big.Int).Sub(p, big1), new(big.Int).Sub(q, big1))
		pub := crypto.ScalarBaseMult(tss.S256(), big.NewInt(99))
		k := big.NewInt(5)
		sk := &paillier.PrivateKey{PublicKey: paillier.PublicKey{N: N}, PhiN: phi, LambdaN: phi, P: p, Q: q}
		var pf paillier.Proof
		if pan, _, _ := guard(func() { pf = sk.Proof(k, pub) }); !pan {
			complete := true
			for _, y := range pf {
				if y == nil {
					complete = false
				}
			}
			if complete {
				rejected("paillier key proof, library prover, p | q-1", func() bool { ok, err := pf.Verify(N, k, pub); return ok && err == nil })
			}
		} else {
			r.Count("prover_panicked_on_bad_witness", 1)
		}
		// best effort transcript: exponent d = N^-1 mod (phi / p)
		lam := new(big.Int).Div(phi, p)
		d := new(big.Int).ModInverse(new(big.Int).Mod(N, lam), lam)
		if d != nil {
			xs := paillier.GenerateXs(paillier.ProofIters, k, N, pub)
			var tp paillier.Proof
			for i := range xs {
				tp[i] = new(big.Int).Exp(xs[i], d, N)
			}
			rejected("paillier key proof, best-effort roots, p | q-1", func() bool { ok, err := tp.Verify(N, k, pub); return ok && err == nil })
		}
		r.Count("control_true_statements_accepted", 1) // control shared with paillier-small-prime
	case "mod-bad-modulus":
		c11Mod(&r, c.P.Str("fam"), c.P.Int("bits"), sess, rejected, control, env)
	case "fac-small-factor":
		ver, err := paramSet(env, c.P.Int("a"))
		if err != nil {
			r.Inconcl("%v", err)
			return r
		}
		ec := tss.S256()
		fx, _ := Fixtures(env.Repo)
		hon := fx[(c.P.Int("a")+1)%5].PaillierSK
		control("fac", func() bool {
			pf, err := facproof.NewProof(sess, ec, hon.N, ver.NTildei, ver.H1i, ver.H2i, hon.P, hon.Q, rand.Reader)
			return err == nil && pf.Verify(sess, ec, hon.N, ver.NTildei, ver.H1i, ver.H2i)
		})
		// the proof bounds both factors by q^3*sqrt(N0)/q ~ 2^1536, i.e. it can only exclude a factor below ~2^512:
		// sizes up to 500 bits are false statements for this verifier, larger "unbalanced" moduli are accepted by design
		for _, small := range []int{16, 200, 400, 500} {
			p, _ := rand.Prime(rand.Reader, small)
			q, _ := rand.Prime(rand.Reader, 2048-small)
			N0 := new(big.Int).Mul(p, q)
			what := fmt.Sprintf("fac: N0 with a %d-bit factor", small)
			rejected(what, func() bool {
				pf, err := facproof.NewProof(sess, ec, N0, ver.NTildei, ver.H1i, ver.H2i, p, q, rand.Reader)
				return err == nil && pf.Verify(sess, ec, N0, ver.NTildei, ver.H1i, ver.H2i)
			})
			rejected(what+" (factors swapped)", func() bool {
				pf, err := facproof.NewProof(sess, ec, N0, ver.NTildei, ver.H1i, ver.H2i, q, p, rand.Reader)
				return err == nil && pf.Verify(sess, ec, N0, ver.NTildei, ver.H1i, ver.H2i)
			})
		}
		// factors that do not multiply to N0
		rejected("fac: witnesses do not multiply to N0", func() bool {
			pf, err := facproof.NewProof(sess, ec, hon.N, ver.NTildei, ver.H1i, ver.H2i, hon.P, new(big.Int).Add(hon.Q, big2), rand.Reader)
			return err == nil && pf.Verify(sess, ec, hon.N, ver.NTildei, ver.H1i, ver.H2i)
		})
	case "alice-range":
		c11Alice(&r, c, env, rejected, control)
	case "bob-range":
		c11Bob(&r, c, env, sess, rejected, control)
	case "paillier-domain":
		fx, err := Fixtures(env.Repo)
		if err != nil {
			r.Inconcl("%v", err)
			return r
		}
		c14Domain(&r, fx[1].PaillierSK, rg)
		r.Count("false_statements_rejected", r.Obs["domain_refused"])
		r.Count("control_true_statements_accepted", 1)
	}
	r.NonTrivial = r.Obs["false_statements_rejected"] > 0
	if c.Kind == "mod-bad-modulus" || c.Kind == "alice-range" {
		r.Sample = map[string]any{"case": c.ID, "rejected": r.Obs["false_statements_rejected"]}
	}
	return r
}

func primeMod4(bits int, want int64) *big.Int {
	for {
		p, _ := rand.Prime(rand.Reader, bits)
		if new(big.Int).Mod(p, big.NewInt(4)).Int64() == want {
			return p
		}
	}
}

// fourthRoot finds x with x^4 = y mod the product of the given distinct primes, or nil.
func fourthRoot(y *big.Int, primes []*big.Int) *big.Int {
	N := big.NewInt(1)
	for _, p := range primes {
		N.Mul(N, p)
	}
	x := big.NewInt(0)
	for _, p := range primes {
		yp := new(big.Int).Mod(y, p)
		var root *big.Int
		if p.Cmp(big2) == 0 {
			root = yp
		}
		// all square roots of yp, then a square root of one of them
		var s *big.Int
		if root == nil {
			s = new(big.Int).ModSqrt(yp, p)
			if s == nil {
				return nil
			}
		}
		for _, cand := range []*big.Int{s, new(big.Int).Sub(p, big0)} {
			if root != nil {
				break
			}
			if cand.Cmp(p) == 0 {
				cand = new(big.Int).Sub(p, s)
			}
			if t := new(big.Int).ModSqrt(new(big.Int).Mod(cand, p), p); t != nil {
				root = t
				break
			}
		}
		if root == nil {
			return nil
		}
		// CRT accumulate
		M := new(big.Int).Div(N, p)
		inv := new(big.Int).ModInverse(new(big.Int).Mod(M, p), p)
		term := new(big.Int).Mul(root, M)
		term.Mul(term, inv)
		x.Add(x, term)
	}
	return x.Mod(x, N)
}

// modTranscript builds the best mod-proof transcript a prover who knows the factorisation can make.
func modTranscript(sess []byte, N *big.Int, primes []*big.Int, phi *big.Int) *modproof.ProofMod {
	var W *big.Int
	for w := int64(2); w < 5000 && N.Bit(0) == 1; w++ {
		if big.Jacobi(big.NewInt(w), N) == -1 {
			W = big.NewInt(w)
			break
		}
	}
	if W == nil {
		W = big.NewInt(2)
	}
	pf := &modproof.ProofMod{W: W, A: new(big.Int).Lsh(big1, modproof.Iterations), B: new(big.Int).Lsh(big1, modproof.Iterations)}
	var Y [modproof.Iterations]*big.Int
	for i := range Y {
		ei := common.SHA512_256i_TAGGED(sess, append([]*big.Int{W, N}, Y[:i]...)...)
		Y[i] = new(big.Int).Mod(ei, N)
	}
	invN := new(big.Int).ModInverse(new(big.Int).Mod(N, phi), phi)
	distinct := true
	for i := range primes {
		for j := range primes {
			if i != j && primes[i].Cmp(primes[j]) == 0 {
				distinct = false
			}
		}
	}
	for i := range Y {
		pf.Z[i], pf.X[i] = big.NewInt(1), big.NewInt(1)
		if invN != nil {
			pf.Z[i] = new(big.Int).Exp(Y[i], invN, N)
		}
		if !distinct {
			continue
		}
		for j := 0; j < 4; j++ {
			a, b := j&1, (j&2)>>1
			yi := new(big.Int).Set(Y[i])
			if a > 0 {
				yi.Neg(yi).Mod(yi, N)
			}
			if b > 0 {
				yi.Mul(yi, W).Mod(yi, N)
			}
			if x := fourthRoot(yi, primes); x != nil && x.Sign() > 0 {
				pf.X[i] = x
				pf.A.SetBit(pf.A, i, uint(a))
				pf.B.SetBit(pf.B, i, uint(b))
				break
			}
		}
	}
	return pf
}

func c11Mod(r *core.Result, fam string, bits int, sess []byte, rejected func(string, func() bool), control func(string, func() bool), env *core.Env) {
	half := bits / 2
	fx, err := Fixtures(env.Repo)
	if err == nil {
		sk := fx[2].PaillierSK
		control("mod", func() bool {
			pf, e := modproof.NewProof(sess, sk.N, sk.P, sk.Q, rand.Reader)
			return e == nil && pf.Verify(sess, sk.N)
		})
		// the transcript builder itself must be good enough to convince the verifier on a true statement
		control("mod (transcript builder on a Blum modulus)", func() bool {
			P, Q := primeMod4(256, 3), primeMod4(256, 3)
			N := new(big.Int).Mul(P, Q)
			phi := new(big.Int).Mul(new(big.Int).Sub(P, big1), new(big.Int).Sub(Q, big1))
			if new(big.Int).GCD(nil, nil, N, phi).Cmp(big1) != 0 {
				return true
			}
			return modTranscript(sess, N, []*big.Int{P, Q}, phi).Verify(sess, N)
		})
	}
	switch fam {
	case "prime":
		P := primeMod4(bits, 3)
		phi := new(big.Int).Sub(P, big1)
		pf := modTranscript(sess, P, []*big.Int{P}, phi)
		// all equations hold for a prime = 3 mod 4: only the primality test can reject
		rejected("mod: N prime (every equation satisfiable)", func() bool { return pf.Verify(sess, P) })
	case "even":
		P := primeMod4(half, 3)
		N := new(big.Int).Lsh(P, uint(half))
		phi := new(big.Int).Lsh(new(big.Int).Sub(P, big1), uint(half-1))
		pf := modTranscript(sess, N, []*big.Int{big2, P}, phi)
		rejected("mod: N = 2^k * P", func() bool { return pf.Verify(sess, N) })
		N2 := new(big.Int).Mul(big2, P)
		pf2 := modTranscript(sess, N2, []*big.Int{big2, P}, new(big.Int).Sub(P, big1))
		rejected("mod: N = 2P", func() bool { return pf2.Verify(sess, N2) })
	case "P^2":
		P := primeMod4(half, 3)
		N := new(big.Int).Mul(P, P)
		phi := new(big.Int).Mul(P, new(big.Int).Sub(P, big1))
		pf := modTranscript(sess, N, []*big.Int{P, P}, phi)
		rejected("mod: N = P^2 (W small)", func() bool { return pf.Verify(sess, N) })
		pf.W = new(big.Int).Set(P) // Jacobi 0: passes the residue test, must fail the unit test
		rejected("mod: N = P^2 (W = P)", func() bool { return pf.Verify(sess, N) })
	case "P=1mod4":
		P, Q := primeMod4(half, 1), primeMod4(half, 3)
		N := new(big.Int).Mul(P, Q)
		phi := new(big.Int).Mul(new(big.Int).Sub(P, big1), new(big.Int).Sub(Q, big1))
		pf := modTranscript(sess, N, []*big.Int{P, Q}, phi)
		rejected("mod: N = P*Q, P = 1 mod 4 (transcript)", func() bool { return pf.Verify(sess, N) })
		rejected("mod: N = P*Q, P = 1 mod 4 (library prover)", func() bool {
			lp, err := modproof.NewProof(sess, N, P, Q, rand.Reader)
			return err == nil && lp.Verify(sess, N)
		})
		P2, Q2 := primeMod4(half, 1), primeMod4(half, 1)
		N2 := new(big.Int).Mul(P2, Q2)
		rejected("mod: N = P*Q, both 1 mod 4 (library prover)", func() bool {
			lp, err := modproof.NewProof(sess, N2, P2, Q2, rand.Reader)
			return err == nil && lp.Verify(sess, N2)
		})
	case "three-primes":
		t := bits / 3
		P, Q, R := primeMod4(t, 3), primeMod4(t, 3), primeMod4(t, 3)
		N := new(big.Int).Mul(new(big.Int).Mul(P, Q), R)
		phi := new(big.Int).Mul(new(big.Int).Mul(new(big.Int).Sub(P, big1), new(big.Int).Sub(Q, big1)), new(big.Int).Sub(R, big1))
		pf := modTranscript(sess, N, []*big.Int{P, Q, R}, phi)
		rejected("mod: N = P*Q*R (transcript)", func() bool { return pf.Verify(sess, N) })
		// library prover told that N = P * (QR)
		rejected("mod: N = P*(Q*R) (library prover)", func() bool {
			lp, err := modproof.NewProof(sess, N, P, new(big.Int).Mul(Q, R), rand.Reader)
			return err == nil && lp.Verify(sess, N)
		})
	case "P=Q-swapped-roles":
		// a proof for one Blum modulus shown for another one
		P, Q := primeMod4(half, 3), primeMod4(half, 3)
		N := new(big.Int).Mul(P, Q)
		P2 := primeMod4(half, 3)
		Nb := new(big.Int).Mul(P2, Q)
		rejected("mod: proof for N shown for N' sharing a factor", func() bool {
			lp, err := modproof.NewProof(sess, N, P, Q, rand.Reader)
			return err == nil && lp.Verify(sess, Nb)
		})
	}
}

// aliceTranscript re-implements ProveRangeAlice with a chosen alpha (the only way to put s1 just above the bound).
func aliceTranscript(pk *paillier.PublicKey, c, NTilde, h1, h2, m, r, alpha *big.Int) *mta.RangeProofAlice {
	return aliceTranscriptForced(tss.S256(), pk, c, NTilde, h1, h2, m, r, alpha, nil)
}

// aliceTranscriptForced: a prover that fixes some of its first-move values (z, u, w) to values of its choosing before the
// challenge is derived, and answers honestly after that: every equation that does not involve the forced value holds.
func aliceTranscriptForced(ec elliptic.Curve, pk *paillier.PublicKey, c, NTilde, h1, h2, m, r, alpha *big.Int, force map[string]*big.Int) *mta.RangeProofAlice {
	q := ec.Params().N
	q3 := new(big.Int).Exp(q, big.NewInt(3), nil)
	beta := common.GetRandomPositiveRelativelyPrimeInt(rand.Reader, pk.N)
	gamma := common.GetRandomPositiveInt(rand.Reader, new(big.Int).Mul(q3, NTilde))
	rho := common.GetRandomPositiveInt(rand.Reader, new(big.Int).Mul(q, NTilde))
	z := new(big.Int).Exp(h1, m, NTilde)
	z.Mul(z, new(big.Int).Exp(h2, rho, NTilde)).Mod(z, NTilde)
	N2 := pk.NSquare()
	u := new(big.Int).Exp(pk.Gamma(), alpha, N2)
	u.Mul(u, new(big.Int).Exp(beta, pk.N, N2)).Mod(u, N2)
	w := new(big.Int).Exp(h1, alpha, NTilde)
	w.Mul(w, new(big.Int).Exp(h2, gamma, NTilde)).Mod(w, NTilde)
	if v, ok := force["z"]; ok {
		z = v
	}
	if v, ok := force["u"]; ok {
		u = v
	}
	if v, ok := force["w"]; ok {
		w = v
	}
	e := common.SHA512_256i(append(pk.AsInts(), c, z, u, w)...)
	e.Mod(e, q)
	s := new(big.Int).Exp(r, e, pk.N)
	s.Mul(s, beta).Mod(s, pk.N)
	s1 := new(big.Int).Add(new(big.Int).Mul(e, m), alpha)
	s2 := new(big.Int).Add(new(big.Int).Mul(e, rho), gamma)
	return &mta.RangeProofAlice{Z: z, U: u, W: w, S: s, S1: s1, S2: s2}
}

func c11Alice(r *core.Result, c core.Case, env *core.Env, rejected func(string, func() bool), control func(string, func() bool)) {
	a, err := paramSet(env, c.P.Int("a"))
	if err != nil {
		r.Inconcl("%v", err)
		return
	}
	b, _ := paramSet(env, c.P.Int("b"))
	ec := tss.S256()
	q := secQ
	pk := &a.PaillierSK.PublicKey
	q3 := new(big.Int).Exp(q, big.NewInt(3), nil)
	NT, h1, h2 := b.NTildei, b.H1i, b.H2i
	{
		m := new(big.Int).Sub(q, big1)
		cc, rr, _ := pk.EncryptAndReturnRandomness(rand.Reader, m)
		control("alice", func() bool {
			pf, err := mta.ProveRangeAlice(ec, pk, cc, NT, h1, h2, m, rr, rand.Reader)
			return err == nil && pf.Verify(ec, pk, NT, h1, h2, cc)
		})
		// transcript builder sanity: alpha well inside the range is accepted
		control("alice (transcript builder)", func() bool {
			return aliceTranscript(pk, cc, NT, h1, h2, m, rr, new(big.Int).Rsh(q3, 1)).Verify(ec, pk, NT, h1, h2, cc)
		})
		// equations hold, s1 just above q^3
		for _, off := range []int64{0, 1, 1000} {
			alpha := new(big.Int).Sub(q3, big.NewInt(off))
			pf := aliceTranscript(pk, cc, NT, h1, h2, m, rr, alpha)
			if pf.S1.Cmp(q3) <= 0 {
				continue
			}
			rejected(fmt.Sprintf("alice: equations hold, s1 = q^3 + %s", hx(new(big.Int).Sub(pf.S1, q3))), func() bool { return pf.Verify(ec, pk, NT, h1, h2, cc) })
		}
	}
	// the same on a second curve, in the same process and after the secp256k1 checks above: the bound is that curve's q^3
	// (edwards25519's order is about 2^252, so its q^3 is 2^12 times smaller than secp256k1's)
	{
		ed := tss.Edwards()
		qe := ed.Params().N
		qe3 := new(big.Int).Exp(qe, big.NewInt(3), nil)
		m := new(big.Int).Sub(qe, big1)
		cc, rr, _ := pk.EncryptAndReturnRandomness(rand.Reader, m)
		control("alice on ed25519 (library prover)", func() bool {
			pf, err := mta.ProveRangeAlice(ed, pk, cc, NT, h1, h2, m, rr, rand.Reader)
			return err == nil && pf.Verify(ed, pk, NT, h1, h2, cc)
		})
		control("alice on ed25519 (transcript builder)", func() bool {
			return aliceTranscriptForced(ed, pk, cc, NT, h1, h2, m, rr, new(big.Int).Rsh(qe3, 1), nil).Verify(ed, pk, NT, h1, h2, cc)
		})
		for _, off := range []int64{0, 1, 1000} {
			pf := aliceTranscriptForced(ed, pk, cc, NT, h1, h2, m, rr, new(big.Int).Sub(qe3, big.NewInt(off)), nil)
			if pf.S1.Cmp(qe3) <= 0 {
				continue
			}
			rejected(fmt.Sprintf("alice on ed25519 after secp256k1: equations hold, s1 = q^3 + %s", hx(new(big.Int).Sub(pf.S1, qe3))), func() bool { return pf.Verify(ed, pk, NT, h1, h2, cc) })
		}
		// and a multiplier just above q^3 in Bob's proof on that curve
		xb := new(big.Int).Add(qe3, big1)
		if cy, ry, err := pk.EncryptAndReturnRandomness(rand.Reader, big.NewInt(5)); err == nil {
			c1, _ := pk.Encrypt(rand.Reader, big.NewInt(9))
			if c2, err := pk.HomoMult(xb, c1); err == nil {
				if c2, err = pk.HomoAdd(c2, cy); err == nil {
					rejected("bob on ed25519 after secp256k1: x = q^3+1", func() bool {
						pf, err := mta.ProveBob([]byte("s"), ed, pk, NT, h1, h2, c1, c2, xb, big.NewInt(5), ry, rand.Reader)
						return err == nil && pf.Verify([]byte("s"), ed, pk, NT, h1, h2, c1, c2)
					})
				}
			}
		}
	}
	for what, m := range map[string]*big.Int{
		"q^3+1": new(big.Int).Add(q3, big1), "2q^3": new(big.Int).Lsh(q3, 1), "q^4": new(big.Int).Mul(q3, q), "N-1": new(big.Int).Sub(pk.N, big1),
	} {
		cc, rr, err := pk.EncryptAndReturnRandomness(rand.Reader, m)
		if err != nil {
			continue
		}
		rejected("alice: m = "+what+" (library prover)", func() bool {
			pf, err := mta.ProveRangeAlice(ec, pk, cc, NT, h1, h2, m, rr, rand.Reader)
			return err == nil && pf.Verify(ec, pk, NT, h1, h2, cc)
		})
	}
	// proof about another plaintext
	m1, m2 := big.NewInt(5), big.NewInt(6)
	c1, r1, _ := pk.EncryptAndReturnRandomness(rand.Reader, m1)
	c2, _ := pk.Encrypt(rand.Reader, m2)
	rejected("alice: proof for Enc(5) shown for Enc(6)", func() bool {
		pf, err := mta.ProveRangeAlice(ec, pk, c1, NT, h1, h2, m1, r1, rand.Reader)
		return err == nil && pf.Verify(ec, pk, NT, h1, h2, c2)
	})
	rejected("alice: prover lies about the plaintext", func() bool {
		pf, err := mta.ProveRangeAlice(ec, pk, c1, NT, h1, h2, m2, r1, rand.Reader)
		return err == nil && pf.Verify(ec, pk, NT, h1, h2, c1)
	})
}

// bobWCTranscript follows the prover of Bob's proof with check step by step (GG18 Fig. 10); with negU the first move on
// the curve is u = -(alpha*G) instead of alpha*G.
func bobWCTranscript(sess []byte, ec elliptic.Curve, pk *paillier.PublicKey, NT, h1, h2, c1, c2, x, y, r *big.Int, X *crypto.ECPoint, negU bool) *mta.ProofBobWC {
	q := ec.Params().N
	q3 := new(big.Int).Exp(q, big.NewInt(3), nil)
	q7 := new(big.Int).Exp(q, big.NewInt(7), nil)
	N2 := pk.NSquare()
	alpha := common.GetRandomPositiveInt(rand.Reader, q3)
	rho := common.GetRandomPositiveInt(rand.Reader, new(big.Int).Mul(q, NT))
	sigma := common.GetRandomPositiveInt(rand.Reader, new(big.Int).Mul(q, NT))
	tau := common.GetRandomPositiveInt(rand.Reader, new(big.Int).Mul(q3, NT))
	rhoPrm := common.GetRandomPositiveInt(rand.Reader, new(big.Int).Mul(q3, NT))
	beta := common.GetRandomPositiveRelativelyPrimeInt(rand.Reader, pk.N)
	gamma := common.GetRandomPositiveInt(rand.Reader, q7)
	u := crypto.ScalarBaseMult(ec, new(big.Int).Mod(alpha, q))
	if negU {
		u, _ = crypto.NewECPoint(ec, u.X(), new(big.Int).Sub(ec.Params().P, u.Y()))
	}
	pw := func(b1, e1, b2, e2, m *big.Int) *big.Int {
		v := new(big.Int).Exp(b1, e1, m)
		return v.Mul(v, new(big.Int).Exp(b2, e2, m)).Mod(v, m)
	}
	z := pw(h1, x, h2, rho, NT)
	zPrm := pw(h1, alpha, h2, rhoPrm, NT)
	tt := pw(h1, y, h2, sigma, NT)
	v := pw(c1, alpha, pk.Gamma(), gamma, N2)
	v.Mul(v, new(big.Int).Exp(beta, pk.N, N2)).Mod(v, N2)
	w := pw(h1, gamma, h2, tau, NT)
	eHash := common.SHA512_256i_TAGGED(sess, append(pk.AsInts(), X.X(), X.Y(), c1, c2, u.X(), u.Y(), z, zPrm, tt, v, w)...)
	e := common.RejectionSample(q, eHash)
	s := new(big.Int).Exp(r, e, pk.N)
	s.Mul(s, beta).Mod(s, pk.N)
	s1 := new(big.Int).Add(new(big.Int).Mul(e, x), alpha)
	s2 := new(big.Int).Add(new(big.Int).Mul(e, rho), rhoPrm)
	t1 := new(big.Int).Add(new(big.Int).Mul(e, y), gamma)
	t2 := new(big.Int).Add(new(big.Int).Mul(e, sigma), tau)
	return &mta.ProofBobWC{ProofBob: &mta.ProofBob{Z: z, ZPrm: zPrm, T: tt, V: v, W: w, S: s, S1: s1, S2: s2, T1: t1, T2: t2}, U: u}
}

func c11Bob(r *core.Result, c core.Case, env *core.Env, sess []byte, rejected func(string, func() bool), control func(string, func() bool)) {
	a, err := paramSet(env, c.P.Int("a"))
	if err != nil {
		r.Inconcl("%v", err)
		return
	}
	b, _ := paramSet(env, c.P.Int("b"))
	ec := tss.S256()
	q := secQ
	pk := &a.PaillierSK.PublicKey
	NT, h1, h2 := b.NTildei, b.H1i, b.H2i
	q3 := new(big.Int).Exp(q, big.NewInt(3), nil)
	q7 := new(big.Int).Exp(q, big.NewInt(7), nil)
	av := common.GetRandomPositiveInt(rand.Reader, q)
	c1, _ := pk.Encrypt(rand.Reader, av)
	mk := func(x, y *big.Int) (c2, rr *big.Int, ok bool) {
		cy, rr, err := pk.EncryptAndReturnRandomness(rand.Reader, y)
		if err != nil {
			return nil, nil, false
		}
		c2, err = pk.HomoMult(x, c1)
		if err != nil {
			return nil, nil, false
		}
		c2, err = pk.HomoAdd(c2, cy)
		return c2, rr, err == nil
	}
	x0, y0 := new(big.Int).Sub(q, big.NewInt(3)), new(big.Int).Sub(new(big.Int).Exp(q, big.NewInt(5), nil), big1)
	if c2, rr, ok := mk(x0, y0); ok {
		control("bob", func() bool {
			pf, err := mta.ProveBob(sess, ec, pk, NT, h1, h2, c1, c2, x0, y0, rr, rand.Reader)
			return err == nil && pf.Verify(sess, ec, pk, NT, h1, h2, c1, c2)
		})
		X := crypto.ScalarBaseMult(ec, x0)
		control("bob-wc", func() bool {
			pf, err := mta.ProveBobWC(sess, ec, pk, NT, h1, h2, c1, c2, x0, y0, rr, X, rand.Reader)
			return err == nil && pf.Verify(sess, ec, pk, NT, h1, h2, c1, c2, X)
		})
		// X inconsistent with x
		for what, d := range map[string]*big.Int{"x+1": big1, "x+2^128": new(big.Int).Lsh(big1, 128)} {
			Xbad := crypto.ScalarBaseMult(ec, new(big.Int).Mod(new(big.Int).Add(x0, d), q))
			rejected("bob-wc: X = ("+what+")G", func() bool {
				pf, err := mta.ProveBobWC(sess, ec, pk, NT, h1, h2, c1, c2, x0, y0, rr, Xbad, rand.Reader)
				return err == nil && pf.Verify(sess, ec, pk, NT, h1, h2, c1, c2, Xbad)
			})
		}
		// a prover that knows x claims the point -(x*G) and publishes u = -(alpha*G): every equation except the one on
		// the curve holds, and g^s1 differs from X^e*u only in the sign of y
		control("bob-wc (transcript builder)", func() bool {
			return bobWCTranscript(sess, ec, pk, NT, h1, h2, c1, c2, x0, y0, rr, X, false).Verify(sess, ec, pk, NT, h1, h2, c1, c2, X)
		})
		negX, err := crypto.NewECPoint(ec, X.X(), new(big.Int).Sub(ec.Params().P, X.Y()))
		if err == nil {
			rejected("bob-wc: X = -(xG), u = -(alpha G), everything else honest", func() bool {
				return bobWCTranscript(sess, ec, pk, NT, h1, h2, c1, c2, x0, y0, rr, negX, true).Verify(sess, ec, pk, NT, h1, h2, c1, c2, negX)
			})
			rejected("bob-wc: X = -(xG) with the library prover", func() bool {
				pf, err := mta.ProveBobWC(sess, ec, pk, NT, h1, h2, c1, c2, x0, y0, rr, negX, rand.Reader)
				return err == nil && pf.Verify(sess, ec, pk, NT, h1, h2, c1, c2, negX)
			})
		}
		// first move repaired after the challenge: Bob knows x, claims the point 2(xG), runs the honest prover for that claim
		// and then publishes u' = s1*G - 2*(e*xG) instead of alpha*G; e*xG = s1*G - u is public. Every Paillier-side equation
		// is honest. Works exactly when the challenge does not depend on u.
		if X2x, err := X.Add(X); err == nil {
			rejected("bob-wc: X = 2(xG), u recomputed from the response s1", func() bool {
				pf, err := mta.ProveBobWC(sess, ec, pk, NT, h1, h2, c1, c2, x0, y0, rr, X2x, rand.Reader)
				if err != nil || new(big.Int).Mod(pf.S1, q).Sign() == 0 {
					return false
				}
				sG := crypto.ScalarBaseMult(ec, pf.S1)
				E, err := sG.Add(negPoint(ec, pf.U))
				if err != nil {
					return false
				}
				E2, err := E.Add(E)
				if err != nil {
					return false
				}
				u2, err := sG.Add(negPoint(ec, E2))
				if err != nil {
					return false
				}
				pf.U = u2
				return pf.Verify(sess, ec, pk, NT, h1, h2, c1, c2, X2x)
			})
		}
		// proof without check shown where the check is required and vice versa
		rejected("bob proof (no check) verified as with-check", func() bool {
			pf, err := mta.ProveBob(sess, ec, pk, NT, h1, h2, c1, c2, x0, y0, rr, rand.Reader)
			if err != nil {
				return false
			}
			u := crypto.ScalarBaseMult(ec, big.NewInt(3))
			return (&mta.ProofBobWC{ProofBob: pf, U: u}).Verify(sess, ec, pk, NT, h1, h2, c1, c2, X)
		})
		// c2 does not encrypt a*x+y
		c2bad, _ := pk.HomoAdd(c2, pk.Gamma())
		rejected("bob: c2 encrypts a*x+y+1", func() bool {
			pf, err := mta.ProveBob(sess, ec, pk, NT, h1, h2, c1, c2bad, x0, y0, rr, rand.Reader)
			return err == nil && pf.Verify(sess, ec, pk, NT, h1, h2, c1, c2bad)
		})
	}
	for what, x := range map[string]*big.Int{"q^3+1": new(big.Int).Add(q3, big1), "2q^3": new(big.Int).Lsh(q3, 1), "q^4": new(big.Int).Mul(q3, q)} {
		xx := x
		if c2, rr, ok := mk(xx, y0); ok {
			rejected("bob: x = "+what, func() bool {
				pf, err := mta.ProveBob(sess, ec, pk, NT, h1, h2, c1, c2, xx, y0, rr, rand.Reader)
				return err == nil && pf.Verify(sess, ec, pk, NT, h1, h2, c1, c2)
			})
			xq := new(big.Int).Mod(xx, q)
			if xq.Sign() == 0 {
				continue // x*G would be the identity, which cannot be a statement
			}
			X := crypto.ScalarBaseMult(ec, xq)
			rejected("bob-wc: x = "+what, func() bool {
				pf, err := mta.ProveBobWC(sess, ec, pk, NT, h1, h2, c1, c2, xx, y0, rr, X, rand.Reader)
				return err == nil && pf.Verify(sess, ec, pk, NT, h1, h2, c1, c2, X)
			})
		}
	}
	for what, y := range map[string]*big.Int{"q^7+1": new(big.Int).Add(q7, big1), "2q^7": new(big.Int).Lsh(q7, 1), "N-1": new(big.Int).Sub(pk.N, big1)} {
		yy := y
		if c2, rr, ok := mk(x0, yy); ok {
			rejected("bob: y = "+what, func() bool {
				pf, err := mta.ProveBob(sess, ec, pk, NT, h1, h2, c1, c2, x0, yy, rr, rand.Reader)
				return err == nil && pf.Verify(sess, ec, pk, NT, h1, h2, c1, c2)
			})
		}
	}
}

// ---------------------------------------------------------------- C13

func c13Gen(tier string, seed int64) []core.Case {
	var cs []core.Case
	vals := []string{"0", "1", "q-1", "seeded"}
	for _, pr := range pairList(tier) {
		for _, wc := range []bool{false, true} {
			for ai, av := range vals {
				for bi, bv := range vals {
					if wc && bv == "0" {
						continue
					}
					if tier != "thorough" && (ai+bi+pr[0])%2 == 1 && !(av == "0" || bv == "0") {
						continue
					}
					id := fmt.Sprintf("mta/wc=%v/alice%d-bob%d/a=%s,b=%s", wc, pr[0], pr[1], av, bv)
					cs = append(cs, core.Case{ID: id, Class: id, Kind: "mta", Cost: 1.5,
						P: core.P{"i": pr[0], "j": pr[1], "wc": wc, "a": av, "b": bv}})
				}
			}
		}
		id := fmt.Sprintf("alter/alice%d-bob%d", pr[0], pr[1])
		cs = append(cs, core.Case{ID: id, Class: id, Kind: "alter", Cost: 6, P: core.P{"i": pr[0], "j": pr[1]}})
	}
	// the exchange takes the curve as an argument: q is that curve's order, whatever the process default is
	for ci, curve := range []string{"ed25519", "p256"} {
		prs := pairList(tier)
		for k, pr := range prs {
			if tier != "thorough" && k != ci%len(prs) {
				continue
			}
			for _, wc := range []bool{false, true} {
				for _, av := range vals {
					for _, bv := range vals {
						if (wc && bv == "0") || (tier != "thorough" && av != bv && av != "seeded" && bv != "seeded") {
							continue
						}
						id := fmt.Sprintf("mta/%s/wc=%v/alice%d-bob%d/a=%s,b=%s", curve, wc, pr[0], pr[1], av, bv)
						cs = append(cs, core.Case{ID: id, Class: id, Kind: "mta", Cost: 1.5,
							P: core.P{"i": pr[0], "j": pr[1], "wc": wc, "a": av, "b": bv, "curve": curve}})
					}
				}
			}
			id := fmt.Sprintf("alter/%s/alice%d-bob%d", curve, pr[0], pr[1])
			cs = append(cs, core.Case{ID: id, Class: id, Kind: "alter", Cost: 6, P: core.P{"i": pr[0], "j": pr[1], "curve": curve}})
		}
	}
	return cs
}

var regP256 sync.Once

func c13Run(c core.Case, env *core.Env) core.Result {
	r := res(c)
	fx, err := Fixtures(env.Repo)
	if err != nil {
		r.Inconcl("fixtures: %v", err)
		return r
	}
	var ec elliptic.Curve = tss.S256()
	switch c.P.Str("curve") {
	case "ed25519":
		ec = tss.Edwards()
	case "p256":
		// a curve other than the two built-in ones has to be registered before use (tss.SameCurve consults the registry)
		ec = elliptic.P256()
		regP256.Do(func() { tss.RegisterCurve("P-256", ec) })
	}
	q := ec.Params().N
	A, B := fx[c.P.Int("i")], fx[c.P.Int("j")]
	skA, pkA := A.PaillierSK, &A.PaillierSK.PublicKey
	rg := rng(env.Seed, c.ID)
	sess := append(common.SHA512_256i(big.NewInt(int64(c.P.Int("i"))), big.NewInt(int64(c.P.Int("j")))).Bytes(), byte(c.P.Int("j")))
	exchange := func(a, b *big.Int, wc bool, tamper func(stage string, v *big.Int) *big.Int, Bpoint *crypto.ECPoint) (alpha, beta *big.Int, err error) {
		cA, pf, err := mta.AliceInit(ec, pkA, a, B.NTildei, B.H1i, B.H2i, rand.Reader)
		if err != nil {
			return nil, nil, fmt.Errorf("AliceInit: %w", err)
		}
		cAatBob := tamper("cA", cA)
		if !wc {
			bt, cB, _, piB, err := mta.BobMid(sess, ec, pkA, pf, b, cAatBob, A.NTildei, A.H1i, A.H2i, B.NTildei, B.H1i, B.H2i, rand.Reader)
			if err != nil {
				return nil, nil, fmt.Errorf("BobMid: %w", err)
			}
			if cAatBob == cA {
				// Bob may look at Alice's one round-1 message more than once (both MtA variants, a retry): the parsed
				// proof object must still verify
				if _, _, _, _, err2 := mta.BobMid(sess, ec, pkA, pf, b, cAatBob, A.NTildei, A.H1i, A.H2i, B.NTildei, B.H1i, B.H2i, rand.Reader); err2 != nil {
					return nil, nil, fmt.Errorf("BobMid on the same proof object a second time: %w", err2)
				}
			}
			cBatAlice := tamper("cB", cB)
			al, err := mta.AliceEnd(sess, ec, pkA, piB, A.H1i, A.H2i, cA, cBatAlice, A.NTildei, skA)
			if err != nil {
				return nil, bt, fmt.Errorf("AliceEnd: %w", err)
			}
			return al, bt, nil
		}
		bt, cB, _, piB, err := mta.BobMidWC(sess, ec, pkA, pf, b, cAatBob, A.NTildei, A.H1i, A.H2i, B.NTildei, B.H1i, B.H2i, Bpoint, rand.Reader)
		if err != nil {
			return nil, nil, fmt.Errorf("BobMidWC: %w", err)
		}
		cBatAlice := tamper("cB", cB)
		al, err := mta.AliceEndWC(sess, ec, pkA, piB, Bpoint, cA, cBatAlice, A.NTildei, A.H1i, A.H2i, skA)
		if err != nil {
			return nil, bt, fmt.Errorf("AliceEndWC: %w", err)
		}
		return al, bt, nil
	}
	id := func(_ string, v *big.Int) *big.Int { return v }
	switch c.Kind {
	case "mta":
		a, b := witnessOf(c.P.Str("a"), q, rg), witnessOf(c.P.Str("b"), q, rg)
		wc := c.P.Bool("wc")
		var Bp *crypto.ECPoint
		if wc {
			Bp = crypto.ScalarBaseMult(ec, b)
		}
		var alpha, beta *big.Int
		var err error
		if p, msg, st := guard(func() { alpha, beta, err = exchange(a, b, wc, id, Bp) }); p {
			r.Fail("mta-panic", "MtA panicked on honest input a=%s b=%s: %s", c.P.Str("a"), c.P.Str("b"), msg)
			r.Witness = st
			return r
		}
		if err != nil {
			r.Fail("mta-honest-error", "honest exchange failed: %v", err)
			return r
		}
		sum := new(big.Int).Add(alpha, beta)
		sum.Mod(sum, q)
		want := new(big.Int).Mul(a, b)
		want.Mod(want, q)
		r.Count("exchanges_compared", 1)
		if sum.Cmp(want) != 0 {
			r.Fail("mta-shares", "alpha+beta != a*b mod q (a=%s b=%s)", c.P.Str("a"), c.P.Str("b"))
		}
		if alpha.Sign() < 0 || alpha.Cmp(q) >= 0 || beta.Sign() < 0 || beta.Cmp(q) >= 0 {
			r.Fail("mta-range", "shares not reduced mod q")
		}
		if wc {
			// B != bG must be refused by Alice
			bad := crypto.ScalarBaseMult(ec, new(big.Int).Add(new(big.Int).Mod(b, new(big.Int).Sub(q, big2)), big1))
			al, _, err := exchange(a, b, true, id, bad)
			r.Count("alterations_refused", 1)
			if err == nil || al != nil {
				r.Fail("mta-wc-wrong-point", "MtAwc accepted a public point B != b*G")
			}
			// the same wrong multiplier, answered by the variant WITHOUT check and presented to the with-check receiver as
			// a proof whose U component is absent (only the Go API can carry that: the wire form always has a U). Whatever
			// the receiver does (error, panic), it must not hand out a share
			if cA, pf, e0 := mta.AliceInit(ec, pkA, a, B.NTildei, B.H1i, B.H2i, rand.Reader); e0 == nil {
				b2 := new(big.Int).Add(new(big.Int).Mod(b, new(big.Int).Sub(q, big2)), big1)
				if _, cB, _, piB, e1 := mta.BobMid(sess, ec, pkA, pf, b2, cA, A.NTildei, A.H1i, A.H2i, B.NTildei, B.H1i, B.H2i, rand.Reader); e1 == nil {
					var share *big.Int
					var e2 error
					pan, _, _ := guard(func() {
						share, e2 = mta.AliceEndWC(sess, ec, pkA, &mta.ProofBobWC{ProofBob: piB, U: nil}, Bp, cA, cB, A.NTildei, A.H1i, A.H2i, skA)
					})
					if !pan && e2 == nil && share != nil {
						r.Fail("mta-wc-downgrade", "AliceEndWC handed out a share for a without-check proof presented without its U component although B != b'*G")
					} else {
						r.Count("alterations_refused", 1)
						r.Count("wc_downgrades_refused", 1)
					}
				}
			}
		}
		r.NonTrivial = true
		if c.P.Str("a") == "q-1" && c.P.Str("b") == "q-1" {
			r.Sample = map[string]any{"case": c.ID, "alpha+beta==a*b": sum.Cmp(want) == 0}
		}
	case "alter":
		a, b := randBig(rg, q), randBig(rg, q)
		if b.Sign() == 0 {
			b = big.NewInt(3)
		}
		N2 := pkA.NSquare()
		other, _ := pkA.Encrypt(rand.Reader, big.NewInt(12345))
		alts := map[string]func(v *big.Int) *big.Int{
			"+1":               func(v *big.Int) *big.Int { return new(big.Int).Add(v, big1) },
			"*2 mod N^2":       func(v *big.Int) *big.Int { return new(big.Int).Mod(new(big.Int).Lsh(v, 1), N2) },
			"*(1+N) (adds 1)":  func(v *big.Int) *big.Int { return new(big.Int).Mod(new(big.Int).Mul(v, pkA.Gamma()), N2) },
			"random":           func(v *big.Int) *big.Int { return randBig(rg, N2) },
			"other ciphertext": func(v *big.Int) *big.Int { return other },
			// non-units of Z_{N^2}: the receiver must refuse them like any other altered value
			"N":                 func(v *big.Int) *big.Int { return new(big.Int).Set(pkA.N) },
			"2N":                func(v *big.Int) *big.Int { return new(big.Int).Lsh(pkA.N, 1) },
			"*N mod N^2":        func(v *big.Int) *big.Int { return new(big.Int).Mod(new(big.Int).Mul(v, pkA.N), N2) },
			"a factor of N":     func(v *big.Int) *big.Int { return new(big.Int).Set(skA.P) },
			"*q' (factor of N)": func(v *big.Int) *big.Int { return new(big.Int).Mod(new(big.Int).Mul(v, skA.Q), N2) },
			"0":                 func(v *big.Int) *big.Int { return new(big.Int) },
			"N^2":               func(v *big.Int) *big.Int { return new(big.Int).Set(N2) },
			"-v":                func(v *big.Int) *big.Int { return new(big.Int).Neg(v) },
		}
		for _, wc := range []bool{false, true} {
			var Bp *crypto.ECPoint
			if wc {
				Bp = crypto.ScalarBaseMult(ec, b)
			}
			for _, stage := range []string{"cA", "cB"} {
				for what, f := range alts {
					st, ff := stage, f
					var alpha *big.Int
					var err error
					if p, msg, _ := guard(func() {
						alpha, _, err = exchange(a, b, wc, func(s string, v *big.Int) *big.Int {
							if s == st {
								return ff(v)
							}
							return v
						}, Bp)
					}); p {
						r.Fail("mta-alter-panic:"+stage, "panic when %s was altered (%s): %s", stage, what, msg)
						continue
					}
					if err == nil {
						r.Fail("mta-alter-accepted:"+stage+":"+what, "altered %s (%s, wc=%v) was accepted and a share produced", stage, what, wc)
					} else if alpha != nil {
						r.Fail("mta-alter-share:"+stage, "error reported but a share was returned")
					} else {
						r.Count("alterations_refused", 1)
					}
				}
			}
		}
		// the genuine message first, then the same proof with an altered ciphertext (the sibling call of the other MtA
		// variant, a re-delivery, a retry): what was accepted once must not vouch for another ciphertext
		{
			cA, pf, err := mta.AliceInit(ec, pkA, a, B.NTildei, B.H1i, B.H2i, rand.Reader)
			if err == nil {
				Bp := crypto.ScalarBaseMult(ec, b)
				if _, _, _, _, e1 := mta.BobMid(sess, ec, pkA, pf, b, cA, A.NTildei, A.H1i, A.H2i, B.NTildei, B.H1i, B.H2i, rand.Reader); e1 != nil {
					r.Fail("mta-honest-error", "BobMid refuses the genuine message: %v", e1)
				}
				if _, _, _, _, e1 := mta.BobMidWC(sess, ec, pkA, pf, b, cA, A.NTildei, A.H1i, A.H2i, B.NTildei, B.H1i, B.H2i, Bp, rand.Reader); e1 != nil {
					r.Fail("mta-honest-error", "BobMidWC refuses the genuine message after BobMid has seen it: %v", e1)
				}
				for what, f := range alts {
					bad := f(cA)
					if bad.Cmp(cA) == 0 {
						continue
					}
					var e1, e2 error
					if p, msg, _ := guard(func() {
						_, _, _, _, e1 = mta.BobMid(sess, ec, pkA, pf, b, bad, A.NTildei, A.H1i, A.H2i, B.NTildei, B.H1i, B.H2i, rand.Reader)
						_, _, _, _, e2 = mta.BobMidWC(sess, ec, pkA, pf, b, bad, A.NTildei, A.H1i, A.H2i, B.NTildei, B.H1i, B.H2i, Bp, rand.Reader)
					}); p {
						r.Fail("mta-alter-panic:cA", "panic when an altered cA (%s) followed the genuine message with the same proof: %s", what, msg)
						continue
					}
					if e1 == nil || e2 == nil {
						r.Fail("mta-alter-accepted-after-genuine:cA:"+what, "after the genuine (cA, proof) had been accepted, the same proof with an altered cA (%s) was accepted too", what)
					} else {
						r.Count("alterations_refused", 2)
						r.Count("alterations_after_genuine_refused", 2)
					}
				}
			}
		}
		r.NonTrivial = r.Obs["alterations_refused"] > 0
		r.Sample = map[string]any{"case": c.ID, "alterations_refused": r.Obs["alterations_refused"]}
	}
	_ = ref.SecpN
	return r
}

// negPoint returns -P (Weierstrass: (x, p-y); twisted Edwards: (p-x, y)).
func negPoint(ec elliptic.Curve, P *crypto.ECPoint) *crypto.ECPoint {
	fp := ec.Params().P
	if tss.SameCurve(ec, tss.Edwards()) {
		return crypto.NewECPointNoCurveCheck(ec, new(big.Int).Mod(new(big.Int).Sub(fp, P.X()), fp), P.Y())
	}
	return crypto.NewECPointNoCurveCheck(ec, P.X(), new(big.Int).Mod(new(big.Int).Sub(fp, P.Y()), fp))
}
