package checks

import (
	"bytes"
	"encoding/binary"
	"fmt"
	"math/big"
	"sync"

	"github.com/bnb-chain/tss-lib/v2/common"
	cmt "github.com/bnb-chain/tss-lib/v2/crypto/commitments"

	"verif/core"
)

// C16 — commitments bind; hash inputs are framed unambiguously.
//
// Refuting events: two *different* inputs with the same digest; a decommitment edited in any
// single way that still opens; a builder layout that does not round-trip; a parser panic.

func init() {
	core.Register(&core.Check{
		ID:    "C16",
		Level: "exploration",
		Rule: "exhaustive: all tuples of <=3 byte strings of length <=3 over {00,01,08,'$'} for SHA512_256; the corresponding integer tuples for SHA512_256i; " +
			"tag x tuple products for SHA512_256i_TAGGED; seeded long tuples; every single edit of seeded decommitments; every builder layout within the caps, every truncation and forged length prefix. " +
			"A case is non-trivial if the monitor saw >=1 digest pair / edit / layout; classes are (kind, sub-space).",
		Assumptions: []string{"SHA-512/256 is collision resistant: equal digests mean equal pre-images, so a digest collision between different inputs is a framing defect",
			"negative integers and nil elements are outside the domain (they cannot arrive from the wire)"},
		Gen:       c16Gen,
		Run:       c16Run,
		MinEvents: []string{"digests", "decommit_edits", "layouts_roundtrip"},
	})
}

var c16Alphabet = []byte{0x00, 0x01, 0x08, '$'}

func c16Strings() [][]byte {
	out := [][]byte{{}}
	for l := 1; l <= 3; l++ {
		idx := make([]int, l)
		for {
			s := make([]byte, l)
			for i := range idx {
				s[i] = c16Alphabet[idx[i]]
			}
			out = append(out, s)
			k := l - 1
			for k >= 0 {
				idx[k]++
				if idx[k] < len(c16Alphabet) {
					break
				}
				idx[k] = 0
				k--
			}
			if k < 0 {
				break
			}
		}
	}
	return out
}

func c16Gen(tier string, seed int64) []core.Case {
	var cs []core.Case
	add := func(kind, sub string, cost float64, p core.P) {
		cs = append(cs, core.Case{ID: kind + "/" + sub, Class: kind + "/" + sub, Kind: kind, P: p, Cost: cost})
	}
	add("bytes-exhaustive", "all", 4, core.P{"part": -1})
	add("ints-exhaustive", "all", 3, nil)
	add("tagged-exhaustive", "tags-x-tuples", 4, nil)
	add("cross-function", "bytes-vs-ints-vs-tagged", 2, nil)
	add("boundary-shift", "embedded-framing", 3, nil)
	add("history-independence", "edge-calls-interleaved", 2, nil)
	n := tierN(tier, 2, 8)
	for i := 0; i < n; i++ {
		add("long-random", fmt.Sprint(i), 2, core.P{"i": i, "n": tierN(tier, 20000, 100000)})
	}
	for i := 0; i < tierN(tier, 4, 16); i++ {
		add("decommit-edits", fmt.Sprint(i), 1, core.P{"i": i})
	}
	add("builder-layouts", "exhaustive-small", 2, nil)
	add("builder-forged", "prefixes-and-truncations", 2, nil)
	return cs
}

func c16Run(c core.Case, env *core.Env) core.Result {
	r := res(c)
	switch c.Kind {
	case "bytes-exhaustive":
		c16Bytes(&r, c.P.Int("part"))
	case "ints-exhaustive":
		c16Ints(&r)
	case "tagged-exhaustive":
		c16Tagged(&r)
	case "cross-function":
		c16Cross(&r)
	case "boundary-shift":
		c16Shift(&r)
	case "history-independence":
		c16History(&r, env.Seed)
	case "long-random":
		c16Long(&r, env.Seed, c.P.Int("i"), c.P.Int("n"))
	case "decommit-edits":
		c16Edits(&r, env.Seed, c.P.Int("i"))
	case "builder-layouts":
		c16Layouts(&r, env.Seed)
	case "builder-forged":
		c16Forged(&r, env.Seed)
	}
	return r
}

type digestSet struct {
	m map[[32]byte]string
	r *core.Result
}

func newDigestSet(r *core.Result) *digestSet { return &digestSet{m: map[[32]byte]string{}, r: r} }

// add records digest d for the canonical input description key; a second, different key with the same digest refutes the property.
func (s *digestSet) add(d []byte, key string, fn string) {
	if len(d) != 32 {
		s.r.Fail("digest-len:"+fn, "%s returned %d bytes for input %q", fn, len(d), key)
		return
	}
	var k [32]byte
	copy(k[:], d)
	if prev, ok := s.m[k]; ok {
		if prev != key {
			s.r.Fail("collision:"+fn, "%s: different inputs %q and %q have the same digest %x", fn, prev, key, d)
		}
		return
	}
	s.m[k] = key
	s.r.Count("digests", 1)
}

func c16Bytes(r *core.Result, part int) {
	strs := c16Strings()
	set := newDigestSet(r)
	key := func(t [][]byte) string { return fmt.Sprintf("%x", t) }
	// one process hashes the whole space so that any two tuples meet in the same digest set
	for i, a := range strs {
		t1 := [][]byte{a}
		set.add(common.SHA512_256(t1...), key(t1), "SHA512_256")
		for _, b := range strs {
			t2 := [][]byte{a, b}
			set.add(common.SHA512_256(t2...), key(t2), "SHA512_256")
			_ = i
			for _, cc := range strs {
				t3 := [][]byte{a, b, cc}
				set.add(common.SHA512_256(t3...), key(t3), "SHA512_256")
			}
		}
	}
	if common.SHA512_256() != nil {
		r.Fail("empty-tuple", "SHA512_256() of no inputs returned a digest")
	}
	r.NonTrivial = r.Obs["digests"] > 1000
	r.Sample = map[string]any{"kind": "bytes-exhaustive", "part": part, "distinct_inputs_hashed": r.Obs["digests"], "example_input": fmt.Sprintf("%x", [][]byte{{'$'}, {}, {0, '$', 8}})}
}

func c16IntsList() []*big.Int {
	seen := map[string]bool{}
	var out []*big.Int
	for _, s := range c16Strings() {
		v := new(big.Int).SetBytes(s)
		if !seen[v.String()] {
			seen[v.String()] = true
			out = append(out, v)
		}
	}
	return out
}

func intsKey(t []*big.Int) string {
	var b bytes.Buffer
	for _, v := range t {
		b.WriteString(v.Text(16))
		b.WriteByte(',')
	}
	return b.String()
}

func c16Ints(r *core.Result) {
	ints := c16IntsList()
	set := newDigestSet(r)
	for _, a := range ints {
		t1 := []*big.Int{a}
		set.add(common.SHA512_256i(t1...).FillBytes(make([]byte, 32)), intsKey(t1), "SHA512_256i")
		for _, b := range ints {
			t2 := []*big.Int{a, b}
			set.add(common.SHA512_256i(t2...).FillBytes(make([]byte, 32)), intsKey(t2), "SHA512_256i")
			for _, cc := range ints {
				t3 := []*big.Int{a, b, cc}
				set.add(common.SHA512_256i(t3...).FillBytes(make([]byte, 32)), intsKey(t3), "SHA512_256i")
			}
		}
	}
	r.NonTrivial = r.Obs["digests"] > 1000
	r.Sample = map[string]any{"kind": "ints-exhaustive", "distinct_integers": len(ints), "distinct_inputs_hashed": r.Obs["digests"]}
}

func c16Tagged(r *core.Result) {
	ints := c16IntsList()
	tags := c16Strings()
	set := newDigestSet(r)
	for ti, tag := range tags {
		for _, a := range ints {
			t1 := []*big.Int{a}
			set.add(common.SHA512_256i_TAGGED(tag, t1...).FillBytes(make([]byte, 32)), fmt.Sprintf("%x|%s", tag, intsKey(t1)), "SHA512_256i_TAGGED")
			for _, b := range ints {
				t2 := []*big.Int{a, b}
				set.add(common.SHA512_256i_TAGGED(tag, t2...).FillBytes(make([]byte, 32)), fmt.Sprintf("%x|%s", tag, intsKey(t2)), "SHA512_256i_TAGGED")
				if ti%17 != 0 { // triples for every 17th tag only (5 tags x 262144)
					continue
				}
				if a.BitLen() > 8 || b.BitLen() > 8 {
					continue
				}
				for _, cc := range ints {
					t3 := []*big.Int{a, b, cc}
					set.add(common.SHA512_256i_TAGGED(tag, t3...).FillBytes(make([]byte, 32)), fmt.Sprintf("%x|%s", tag, intsKey(t3)), "SHA512_256i_TAGGED")
				}
			}
		}
	}
	// the digest is a function of the tag's content, not of the caller's buffer: a caller that keeps one buffer and
	// overwrites it in place (ssid || index, index rewritten per participant) gets the same digests as with fresh slices
	byLen := map[int][][]byte{}
	for _, tag := range tags {
		byLen[len(tag)] = append(byLen[len(tag)], tag)
	}
	probe := []*big.Int{big.NewInt(7), big.NewInt(0x24)}
	for L, group := range byLen {
		if L == 0 || len(group) < 2 {
			continue
		}
		want := make([]*big.Int, len(group))
		for i, tag := range group {
			want[i] = common.SHA512_256i_TAGGED(append([]byte{}, tag...), probe...)
		}
		buf := make([]byte, L)
		for i, tag := range group {
			copy(buf, tag)
			got := common.SHA512_256i_TAGGED(buf, probe...)
			r.Count("buffer_reuse_compared", 1)
			if got.Cmp(want[i]) != 0 {
				r.Fail("tagged:depends-on-buffer-identity", "SHA512_256i_TAGGED(tag=%x) returned a different digest when the tag was written into a buffer that had held tag %x before", tag, group[(i+len(group)-1)%len(group)])
				break
			}
		}
	}
	r.NonTrivial = r.Obs["digests"] > 1000 && r.Obs["buffer_reuse_compared"] > 10
	r.Sample = map[string]any{"kind": "tagged-exhaustive", "tags": len(tags), "distinct_inputs_hashed": r.Obs["digests"], "buffer_reuse_compared": r.Obs["buffer_reuse_compared"]}
}

// c16Cross: a tag that looks like framing must not collide with an untagged input, and a tuple moved between tag and body must differ.
func c16Cross(r *core.Result) {
	ints := c16IntsList()
	set := newDigestSet(r)
	for _, a := range ints {
		for _, b := range ints {
			t2 := []*big.Int{a, b}
			set.add(common.SHA512_256i(t2...).FillBytes(make([]byte, 32)), "i|"+intsKey(t2), "SHA512_256i/TAGGED")
			set.add(common.SHA512_256i_TAGGED(a.Bytes(), b).FillBytes(make([]byte, 32)), fmt.Sprintf("t|%x|%s", a.Bytes(), intsKey([]*big.Int{b})), "SHA512_256i/TAGGED")
			set.add(common.SHA512_256i_TAGGED([]byte{}, t2...).FillBytes(make([]byte, 32)), fmt.Sprintf("t||%s", intsKey(t2)), "SHA512_256i/TAGGED")
		}
	}
	// SHA512_256iOne is the unframed hash of one integer: only compared with itself
	one := newDigestSet(r)
	for _, a := range ints {
		one.add(common.SHA512_256iOne(a).FillBytes(make([]byte, 32)), a.Text(16), "SHA512_256iOne")
	}
	r.NonTrivial = true
	r.Sample = map[string]any{"kind": "cross-function", "distinct_inputs_hashed": r.Obs["digests"]}
}

func c16Long(r *core.Result, seed int64, i, n int) {
	rg := rng(seed, fmt.Sprint("c16long", i))
	set := newDigestSet(r)
	iset := newDigestSet(r)
	for k := 0; k < n; k++ {
		cnt := 1 + rg.Intn(12)
		t := make([][]byte, cnt)
		ti := make([]*big.Int, cnt)
		for j := range t {
			l := rg.Intn(40)
			if rg.Intn(8) == 0 {
				l = 200 + rg.Intn(400)
			}
			t[j] = make([]byte, l)
			for x := range t[j] {
				// bias towards framing bytes
				switch rg.Intn(4) {
				case 0:
					t[j][x] = '$'
				case 1:
					t[j][x] = byte(rg.Intn(16))
				default:
					t[j][x] = byte(rg.Intn(256))
				}
			}
			ti[j] = new(big.Int).SetBytes(t[j])
		}
		set.add(common.SHA512_256(t...), fmt.Sprintf("%x", t), "SHA512_256")
		iset.add(common.SHA512_256i(ti...).FillBytes(make([]byte, 32)), intsKey(ti), "SHA512_256i")
		// a re-grouping of the same concatenation: split element 0 in two / merge elements 0 and 1
		if len(t[0]) >= 2 {
			cut := 1 + rg.Intn(len(t[0])-1)
			t2 := append([][]byte{t[0][:cut], t[0][cut:]}, t[1:]...)
			set.add(common.SHA512_256(t2...), fmt.Sprintf("%x", t2), "SHA512_256")
		}
		if cnt >= 2 {
			m := append(append([]byte{}, t[0]...), t[1]...)
			t3 := append([][]byte{m}, t[2:]...)
			set.add(common.SHA512_256(t3...), fmt.Sprintf("%x", t3), "SHA512_256")
		}
	}
	r.NonTrivial = true
	r.Sample = map[string]any{"kind": "long-random", "tuples": n, "distinct_inputs_hashed": r.Obs["digests"]}
}

func c16Edits(r *core.Result, seed int64, i int) {
	rg := rng(seed, fmt.Sprint("c16edits", i))
	for rep := 0; rep < 40; rep++ {
		cnt := rg.Intn(7) // number of secrets, 0..6
		secrets := make([]*big.Int, cnt)
		for j := range secrets {
			switch rg.Intn(5) {
			case 0:
				secrets[j] = big.NewInt(int64(rg.Intn(3)))
			case 1:
				secrets[j] = new(big.Int).SetBytes([]byte{'$', byte(rg.Intn(256)), 8, 0, 0, 0, 0, 0, 0, 0})
			default:
				secrets[j] = randBits(rg, 8+rg.Intn(600))
			}
		}
		rnd := randBits(rg, 256)
		cd := cmt.NewHashCommitmentWithRandomness(rnd, secrets...)
		if !cd.Verify() {
			r.Fail("honest-open", "honest commitment does not verify")
			continue
		}
		ok, got := cd.DeCommit()
		if !ok || len(got) != len(secrets) {
			r.Fail("honest-decommit", "DeCommit returned ok=%v len=%d want %d", ok, len(got), len(secrets))
			continue
		}
		for j := range got {
			if got[j].Cmp(secrets[j]) != 0 {
				r.Fail("honest-decommit", "DeCommit element %d differs", j)
			}
		}
		r.Count("honest_opens", 1)
		var D0 []*big.Int
		try := func(what string, d []*big.Int, cc *big.Int) {
			r.Count("decommit_edits", 1)
			h := cmt.HashCommitDecommit{C: cc, D: d}
			// the same edit applied to a value that has already been opened successfully once (same struct, fields
			// reassigned): the answer must not depend on the history of the value
			if cd2 := cmt.NewHashCommitmentWithRandomness(new(big.Int).Set(D0[0]), secrets...); cd2 != nil && cd2.Verify() {
				cd2.C, cd2.D = cc, d
				var v2 bool
				if p, msg, _ := guard(func() { v2 = cd2.Verify() }); p {
					r.Fail("edit-panic:"+what, "Verify panicked on edit %s of an opened value: %s", what, msg)
				} else if v2 {
					r.Fail("edit-opens-after-open:"+what, "a commitment value that had been opened once still opens after edit %s", what)
				}
				if ok3, _ := cd2.DeCommit(); ok3 {
					r.Fail("edit-opens-after-open:"+what, "DeCommit of a value that had been opened once accepts edit %s", what)
				}
				r.Count("edits_after_open", 1)
			}
			var v bool
			if p, msg, _ := guard(func() { v = h.Verify() }); p {
				r.Fail("edit-panic:"+what, "Verify panicked on edit %s: %s", what, msg)
				return
			}
			if v {
				r.Fail("edit-opens:"+what, "edited decommitment (%s) still opens: D=%v", what, d)
			}
			ok2, _ := h.DeCommit()
			if ok2 {
				r.Fail("edit-opens:"+what, "DeCommit accepts edit %s", what)
			}
		}
		D := cd.D
		D0 = D
		clone := func() []*big.Int {
			o := make([]*big.Int, len(D))
			for k := range D {
				o[k] = new(big.Int).Set(D[k])
			}
			return o
		}
		for k := range D {
			d := clone()
			d[k].Add(d[k], big1)
			try("change+1", d, cd.C)
			d = clone()
			d[k] = randBits(rg, 1+D[k].BitLen())
			if d[k].Cmp(D[k]) != 0 {
				try("change-random", d, cd.C)
			}
			// delete
			d = clone()
			d = append(d[:k], d[k+1:]...)
			if len(d) > 0 {
				try("delete", d, cd.C)
			}
			// insert 0, insert 1, duplicate
			for _, ins := range []*big.Int{big.NewInt(0), big.NewInt(1), new(big.Int).Set(D[k])} {
				d = clone()
				d = append(d[:k], append([]*big.Int{ins}, d[k:]...)...)
				try("insert", d, cd.C)
			}
			// split element k's bytes in two
			bz := D[k].Bytes()
			if len(bz) >= 2 {
				cut := 1 + rg.Intn(len(bz)-1)
				a, b := new(big.Int).SetBytes(bz[:cut]), new(big.Int).SetBytes(bz[cut:])
				d = clone()
				d = append(d[:k], append([]*big.Int{a, b}, d[k+1:]...)...)
				try("split", d, cd.C)
			}
			// merge k and k+1
			if k+1 < len(D) {
				m := new(big.Int).SetBytes(append(append([]byte{}, D[k].Bytes()...), D[k+1].Bytes()...))
				d = clone()
				d = append(d[:k], append([]*big.Int{m}, d[k+2:]...)...)
				try("merge", d, cd.C)
			}
			// swap with neighbour
			if k+1 < len(D) && D[k].Cmp(D[k+1]) != 0 {
				d = clone()
				d[k], d[k+1] = d[k+1], d[k]
				try("swap", d, cd.C)
			}
		}
		d := clone()
		d = append(d, big.NewInt(0))
		try("append-zero", d, cd.C)
		try("commitment+1", clone(), new(big.Int).Add(cd.C, big1))
	}
	r.NonTrivial = r.Obs["decommit_edits"] > 0
	r.Sample = map[string]any{"kind": "decommit-edits", "edits_tried": r.Obs["decommit_edits"], "edit_kinds": "change+1,change-random,delete,insert(0|1|dup),split,merge,swap,append-zero,commitment+1"}
}

func c16Layouts(r *core.Result, seed int64) {
	rg := rng(seed, "c16layouts")
	// every layout of 1..3 parts with sizes 0..4, plus a few large ones
	var layouts [][]int
	for n := 1; n <= 3; n++ {
		sz := make([]int, n)
		for {
			layouts = append(layouts, append([]int{}, sz...))
			k := n - 1
			for k >= 0 {
				sz[k]++
				if sz[k] <= 4 {
					break
				}
				sz[k] = 0
				k--
			}
			if k < 0 {
				break
			}
		}
	}
	layouts = append(layouts, []int{128, 128}, []int{1000}, []int{1, 300, 2}, []int{13}, []int{80, 1, 80})
	for _, lay := range layouts {
		b := cmt.NewBuilder()
		var want [][]*big.Int
		for _, n := range lay {
			part := make([]*big.Int, n)
			for i := range part {
				part[i] = randBits(rg, 1+rg.Intn(300))
			}
			want = append(want, part)
			b.AddPart(part)
		}
		secrets, err := b.Secrets()
		if err != nil {
			r.Fail("builder-refuses", "builder refuses layout %v within the caps: %v", lay, err)
			continue
		}
		var got [][]*big.Int
		var perr error
		if p, msg, _ := guard(func() { got, perr = cmt.ParseSecrets(secrets) }); p {
			r.Fail("parse-panic:layout", "ParseSecrets panicked on an honest layout %v: %s", lay, msg)
			continue
		}
		trailingEmpty := lay[len(lay)-1] == 0
		r.Count("layouts_roundtrip", 1)
		if perr != nil || !sameParts(got, want) {
			sig := "roundtrip"
			if trailingEmpty {
				sig = "roundtrip:trailing-empty-part"
			}
			r.Fail(sig, "layout %v does not round-trip: err=%v got %d parts want %d", lay, perr, len(got), len(want))
		}
	}
	// above the caps the builder must refuse
	b := cmt.NewBuilder()
	for i := 0; i < cmt.PartsCap+1; i++ {
		b.AddPart([]*big.Int{big1})
	}
	if _, err := b.Secrets(); err == nil {
		r.Fail("caps", "builder accepts %d parts (cap %d)", cmt.PartsCap+1, cmt.PartsCap)
	}
	r.NonTrivial = true
	r.Sample = map[string]any{"kind": "builder-layouts", "layouts": len(layouts), "example": []int{2, 0, 3}}
}

func sameParts(a, b [][]*big.Int) bool {
	if len(a) != len(b) {
		return false
	}
	for i := range a {
		if len(a[i]) != len(b[i]) {
			return false
		}
		for j := range a[i] {
			if a[i][j].Cmp(b[i][j]) != 0 {
				return false
			}
		}
	}
	return true
}

func c16Forged(r *core.Result, seed int64) {
	rg := rng(seed, "c16forged")
	mk := func(lay []int) []*big.Int {
		b := cmt.NewBuilder()
		for _, n := range lay {
			part := make([]*big.Int, n)
			for i := range part {
				part[i] = randBits(rg, 64)
			}
			b.AddPart(part)
		}
		s, _ := b.Secrets()
		return s
	}
	parse := func(what string, in []*big.Int, mustErr bool) {
		r.Count("forged_inputs", 1)
		var err error
		var got [][]*big.Int
		if p, msg, _ := guard(func() { got, err = cmt.ParseSecrets(in) }); p {
			r.Fail("parse-panic:"+what, "ParseSecrets panicked on %s: %s", what, msg)
			return
		}
		if mustErr && err == nil {
			r.Fail("parse-accepts:"+what, "ParseSecrets accepted malformed input (%s) as %d parts", what, len(got))
		}
		if err == nil {
			// whatever is accepted must be exactly what the builder produces for the parsed parts
			b := cmt.NewBuilder()
			for _, p := range got {
				b.AddPart(p)
			}
			re, e2 := b.Secrets()
			if e2 != nil {
				r.Fail("parse-accepts-what-builder-refuses:"+what, "ParseSecrets accepted %s as %d parts, a layout the builder refuses (%v)", what, len(got), e2)
			} else if !sameInts(re, in) {
				r.Fail("parse-not-inverse:"+what, "accepted parse of %s re-encodes to a different sequence (%d elements, input %d)", what, len(re), len(in))
			}
		}
	}
	// every sequence of up to 7 elements over a small alphabet, against a reference parser written from the format
	// description: one or more parts [n, n elements], at most PartsCap parts, nothing left over
	alphabet := []*big.Int{big.NewInt(0), big1, big2, big.NewInt(3), big.NewInt(7)}
	var seq []*big.Int
	var walk func(depth int)
	walk = func(depth int) {
		if len(seq) > 0 {
			wantParts, valid := refParseSecrets(seq, int(cmt.PartsCap), int(cmt.MaxPartSize))
			var got [][]*big.Int
			var err error
			if p, msg, _ := guard(func() { got, err = cmt.ParseSecrets(seq) }); p {
				r.Fail("parse-panic:small-sequence", "ParseSecrets panicked on %v: %s", seq, msg)
				return
			}
			r.Count("small_sequences_parsed", 1)
			switch {
			case valid && err != nil:
				r.Fail("parse-refuses-valid", "ParseSecrets refuses the valid encoding %v: %v", seq, err)
			case !valid && err == nil:
				r.Fail("parse-accepts-malformed", "ParseSecrets accepted the malformed sequence %v as %d parts", seq, len(got))
			case valid && !sameParts(got, wantParts):
				r.Fail("parse-wrong-parts", "ParseSecrets(%v) returned %d parts, the format says %d", seq, len(got), len(wantParts))
			}
			if valid {
				r.Count("small_sequences_valid", 1)
			}
		}
		if depth == 7 {
			return
		}
		for _, a := range alphabet {
			seq = append(seq, a)
			walk(depth + 1)
			seq = seq[:len(seq)-1]
		}
	}
	walk(0)
	huge := []*big.Int{
		new(big.Int).Lsh(big1, 63), new(big.Int).Sub(new(big.Int).Lsh(big1, 64), big1), new(big.Int).Lsh(big1, 64),
		new(big.Int).Add(new(big.Int).Lsh(big1, 64), big.NewInt(2)), new(big.Int).Lsh(big1, 200),
		new(big.Int).Sub(new(big.Int).Lsh(big1, 63), big1), big.NewInt(cmt.MaxPartSize + 1), big.NewInt(1 << 40),
	}
	for _, lay := range [][]int{{2}, {1, 1}, {3, 2, 1}, {128, 128}, {0, 2}, {4}} {
		base := mk(lay)
		// truncations
		for cut := 0; cut < len(base); cut++ {
			// a truncation that ends exactly at a part boundary is a valid shorter encoding; others must fail
			valid := false
			pos := 0
			for _, n := range lay {
				pos += 1 + n
				if pos == cut {
					valid = true
				}
			}
			parse(fmt.Sprintf("truncate@%d/%v", cut, lay), base[:cut], !valid)
		}
		// forged length prefixes at every length position
		pos := 0
		for pi, n := range lay {
			for _, hv := range huge {
				f := make([]*big.Int, len(base))
				copy(f, base)
				f[pos] = hv
				parse(fmt.Sprintf("forged-len part%d=%s", pi, hx(hv)), f, true)
			}
			// off by one (longer than the data)
			f := make([]*big.Int, len(base))
			copy(f, base)
			f[pos] = big.NewInt(int64(len(base)))
			parse("forged-len too long", f, true)
			pos += 1 + n
		}
	}
	// too many parts
	parse("four parts", []*big.Int{big1, big1, big1, big1, big1, big1, big1, big1}, true)
	parse("nil", nil, true)
	parse("one element", []*big.Int{big1}, true)
	r.NonTrivial = r.Obs["forged_inputs"] > 10
	r.Sample = map[string]any{"kind": "builder-forged", "inputs": r.Obs["forged_inputs"], "length_prefix_values": []string{"2^63", "2^64-1", "2^64", "2^64+2", "2^200", "2^63-1", "MaxPartSize+1", "2^40"}}
}

// c16Shift moves the split point of a tuple while embedding, at the old split point, the bytes a weaker framing would put
// between two elements: the delimiter alone, or the delimiter / an 8-byte integer (little or big endian) in either
// order, the integer ranging over small constants (element count, element length, 0..16). Whatever the framing really
// is, (x|sep|y, z) and (x, y|sep|z) are different tuples and must hash differently - with a framing that does not bind
// the element lengths (constant, count or missing length field) one of the separators reproduces it and they collide.
func c16Shift(r *core.Result) {
	elems := [][]byte{{'x'}, {1}, {'$'}, {0x24, 0x24}, {1, 0, 0, 0, 0, 0, 0, 0}, []byte("0123456789abcdef")}
	le := func(k uint64) []byte { b := make([]byte, 8); binary.LittleEndian.PutUint64(b, k); return b }
	be := func(k uint64) []byte { b := make([]byte, 8); binary.BigEndian.PutUint64(b, k); return b }
	cat := func(parts ...[]byte) []byte {
		var out []byte
		for _, p := range parts {
			out = append(out, p...)
		}
		return out
	}
	seps := [][]byte{{'$'}, {}}
	for k := uint64(0); k <= 40; k++ {
		seps = append(seps, cat([]byte{'$'}, le(k)), cat([]byte{'$'}, be(k)), cat(le(k), []byte{'$'}), cat(be(k), []byte{'$'}), le(k), be(k))
	}
	bset, iset, tset := newDigestSet(r), newDigestSet(r), newDigestSet(r)
	toInts := func(t [][]byte) []*big.Int {
		out := make([]*big.Int, len(t))
		for i := range t {
			out[i] = new(big.Int).SetBytes(t[i])
		}
		return out
	}
	hashAll := func(t [][]byte) {
		bset.add(common.SHA512_256(t...), fmt.Sprintf("%x", t), "SHA512_256")
		// integers drop leading zero bytes: only tuples whose elements start with a non-zero byte are distinct as integers
		for _, e := range t {
			if len(e) == 0 || e[0] == 0 {
				return
			}
		}
		ti := toInts(t)
		iset.add(common.SHA512_256i(ti...).FillBytes(make([]byte, 32)), intsKey(ti), "SHA512_256i")
		tset.add(common.SHA512_256i_TAGGED([]byte("tag"), ti...).FillBytes(make([]byte, 32)), intsKey(ti), "SHA512_256i_TAGGED")
	}
	// one element that spells out a whole framed tuple under several candidate framings (count prefix or not, either byte
	// order): a single input must not be hashed as if it were the tuple
	framings := func(t [][]byte) [][]byte {
		var out [][]byte
		for _, order := range []func(uint64) []byte{le, be} {
			for _, withCount := range []bool{true, false} {
				var b []byte
				if withCount {
					b = append(b, order(uint64(len(t)))...)
				}
				for _, e := range t {
					b = append(b, e...)
					b = append(b, '$')
					b = append(b, order(uint64(len(e)))...)
				}
				out = append(out, b)
			}
		}
		return out
	}
	for _, x := range elems {
		for _, y := range elems {
			for _, fr := range framings([][]byte{x, y}) {
				hashAll([][]byte{x, y})
				hashAll([][]byte{fr})
				r.Count("framed_singles", 1)
			}
			for _, z := range elems[:3] {
				for _, fr := range framings([][]byte{x, y, z}) {
					hashAll([][]byte{fr})
					r.Count("framed_singles", 1)
				}
			}
		}
	}
	for _, x := range elems {
		for _, y := range elems {
			for _, z := range elems {
				hashAll([][]byte{x, y, z})
				for _, sep := range seps {
					hashAll([][]byte{cat(x, sep, y), z})
					hashAll([][]byte{x, cat(y, sep, z)})
					hashAll([][]byte{cat(x, sep, y, sep, z)})
					r.Count("shifted_pairs", 1)
				}
			}
		}
	}
	r.NonTrivial = r.Obs["shifted_pairs"] > 1000
	r.Sample = map[string]any{"kind": "boundary-shift", "separators": len(seps), "shifted_pairs": r.Obs["shifted_pairs"], "distinct_inputs_hashed": r.Obs["digests"]}
}

func sameInts(a, b []*big.Int) bool {
	if len(a) != len(b) {
		return false
	}
	for i := range a {
		if a[i].Cmp(b[i]) != 0 {
			return false
		}
	}
	return true
}

// refParseSecrets: the de-commitment layout is a sequence of 1..partsCap parts, each a length n (0 <= n <= maxPart) followed by n values.
func refParseSecrets(in []*big.Int, partsCap, maxPart int) ([][]*big.Int, bool) {
	var parts [][]*big.Int
	pos := 0
	for pos < len(in) {
		n := in[pos]
		if n.Sign() < 0 || !n.IsInt64() || n.Int64() > int64(maxPart) || pos+1+int(n.Int64()) > len(in) {
			return nil, false
		}
		parts = append(parts, in[pos+1:pos+1+int(n.Int64())])
		pos += 1 + int(n.Int64())
		if len(parts) > partsCap {
			return nil, false
		}
	}
	return parts, len(parts) > 0
}

// c16History: a digest is a function of its input alone. A fixed list of inputs is hashed once; then again in another
// order with edge calls in between (no elements at all, an empty tag, a nil element, very long inputs) and from several
// goroutines at once; every digest must equal the first one. Also commitments built before and after the edge calls.
func c16History(r *core.Result, seed int64) {
	rg := rng(seed, "c16history")
	type item struct {
		fn  int
		tag []byte
		bs  [][]byte
	}
	var items []item
	for i := 0; i < 600; i++ {
		n := 1 + rg.Intn(4)
		bs := make([][]byte, n)
		for j := range bs {
			bs[j] = make([]byte, 1+rg.Intn(40))
			rg.Read(bs[j])
			bs[j][0] |= 1
		}
		tag := make([]byte, rg.Intn(40))
		rg.Read(tag)
		items = append(items, item{fn: i % 3, tag: tag, bs: bs})
	}
	ints := func(bs [][]byte) []*big.Int {
		out := make([]*big.Int, len(bs))
		for i := range bs {
			out[i] = new(big.Int).SetBytes(bs[i])
		}
		return out
	}
	hash := func(it item) []byte {
		switch it.fn {
		case 0:
			return common.SHA512_256(it.bs...)
		case 1:
			return common.SHA512_256i(ints(it.bs)...).FillBytes(make([]byte, 32))
		}
		return common.SHA512_256i_TAGGED(it.tag, ints(it.bs)...).FillBytes(make([]byte, 32))
	}
	first := make([][]byte, len(items))
	for i, it := range items {
		first[i] = hash(it)
	}
	cd0 := cmt.NewHashCommitmentWithRandomness(big.NewInt(77), big.NewInt(1), big.NewInt(2))
	edge := func(k int) {
		switch k % 7 {
		case 0:
			common.SHA512_256i_TAGGED([]byte("tag with no elements"))
		case 1:
			common.SHA512_256()
		case 2:
			common.SHA512_256i()
		case 3:
			common.SHA512_256i_TAGGED(nil, big.NewInt(1))
		case 4:
			common.SHA512_256i_TAGGED([]byte{}, nil, big.NewInt(1))
		case 5:
			common.SHA512_256(make([]byte, 100000))
		case 6:
			common.SHA512_256iOne(big.NewInt(5))
		}
	}
	order := rg.Perm(len(items))
	for k, i := range order {
		edge(k)
		if got := hash(items[i]); !bytes.Equal(got, first[i]) {
			r.Fail("not-a-function-of-input", "the digest of input #%d (function %d) changed after an edge call of kind %d: %x then %x", i, items[i].fn, k%7, first[i], got)
			break
		}
		r.Count("rehashed_after_edge_calls", 1)
	}
	if cd1 := cmt.NewHashCommitmentWithRandomness(big.NewInt(77), big.NewInt(1), big.NewInt(2)); cd1.C.Cmp(cd0.C) != 0 || !cd1.Verify() || !cd0.Verify() {
		r.Fail("commitment-depends-on-history", "the same (r, secrets) commit to different values / fail to open after unrelated hash calls")
	}
	// several goroutines at once
	var wg sync.WaitGroup
	var mu sync.Mutex
	bad := ""
	for g := 0; g < 8; g++ {
		wg.Add(1)
		go func(g int) {
			defer wg.Done()
			for k := 0; k < len(items); k++ {
				i := (k*7 + g*13) % len(items)
				if (k+g)%5 == 0 {
					edge(k + g)
				}
				if got := hash(items[i]); !bytes.Equal(got, first[i]) {
					mu.Lock()
					bad = fmt.Sprintf("input #%d (function %d) hashed concurrently: %x, alone: %x", i, items[i].fn, got, first[i])
					mu.Unlock()
					return
				}
			}
		}(g)
	}
	wg.Wait()
	if bad != "" {
		r.Fail("not-a-function-of-input:concurrent", "%s", bad)
	}
	r.Count("rehashed_concurrently", int64(8*len(items)))
	r.NonTrivial = r.Obs["rehashed_after_edge_calls"] > 100
	r.Sample = map[string]any{"kind": "history-independence", "inputs": len(items), "edge_call_kinds": 7, "goroutines": 8}
}
