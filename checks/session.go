package checks

import (
	"fmt"
	"math/big"
	"strings"

	ecdsakeygen "github.com/bnb-chain/tss-lib/v2/ecdsa/keygen"
	"github.com/bnb-chain/tss-lib/v2/tss"

	"verif/core"
	"verif/ref"
	"verif/sim"
)

// session describes one protocol run; make() builds a fresh world for it (parties cannot be cloned, so explorers
// re-execute from scratch) and outcome() applies the result oracle of the protocol (C01-C04) to a finished world.
type session struct {
	Proto  string // ecdsa-keygen | ecdsa-signing | ecdsa-resharing | eddsa-*
	N, T   int
	Sel    []int  // signers / participating old members (indices into the key)
	NN, NT int    // resharing: new committee
	Key    string // key pattern: "vendored" or a keyIDs pattern
	Msg    *big.Int

	env  *core.Env
	keys keyset // signing / resharing input (pristine; every world gets a deep copy)
	pub  ref.Pt
	// preOverride: pre-parameters a (deviating) party brings instead of the vendored set: keygen party index / new member index
	preOverride map[int]ecdsakeygen.LocalPreParams
}

func (s *session) curve() string {
	if strings.HasPrefix(s.Proto, "eddsa") {
		return "ed25519"
	}
	return "secp256k1"
}

func sessionFromP(env *core.Env, p core.P) (*session, error) {
	s := &session{Proto: p.Str("proto"), N: p.Int("n"), T: p.Int("t"), Sel: p.Ints("sel"), NN: p.Int("nn"), NT: p.Int("nt"), Key: p.Str("key"), env: env}
	if s.Key == "" {
		s.Key = "seeded"
	}
	s.Msg = big.NewInt(int64(1000003 + p.Int("msg")))
	if !strings.HasSuffix(s.Proto, "keygen") {
		ks, err := loadKeyset(env, s.curve(), s.N, s.T, s.Key, p.Str("proto")+fmt.Sprint(s.N, s.T))
		if err != nil {
			return nil, err
		}
		s.keys = ks
		s.pub = ks.Pub()
		if len(s.Sel) == 0 {
			s.Sel = firstK(s.T + 1)
		}
	}
	return s, nil
}

func (s *session) desc() string {
	switch {
	case strings.HasSuffix(s.Proto, "keygen"):
		return fmt.Sprintf("%s(n=%d,t=%d)", s.Proto, s.N, s.T)
	case strings.HasSuffix(s.Proto, "signing"):
		return fmt.Sprintf("%s(n=%d,t=%d,signers=%v)", s.Proto, s.N, s.T, s.Sel)
	}
	return fmt.Sprintf("%s(n=%d,t=%d,old=%v -> n'=%d,t'=%d)", s.Proto, s.N, s.T, s.Sel, s.NN, s.NT)
}

// make builds a fresh world; the returned keyset is the caller-held input data of this world (nil for keygen).
func (s *session) make(seed int64) (*sim.World, keyset, error) {
	switch s.Proto {
	case "ecdsa-keygen":
		pre, err := PreParams(s.env.Repo)
		if err != nil {
			return nil, nil, err
		}
		use := make([]ecdsakeygen.LocalPreParams, s.N)
		copy(use, pre[:s.N])
		for i, pp := range s.preOverride {
			if i < len(use) {
				use[i] = pp
			}
		}
		return sim.ECDSAKeygen(seed, keyIDs(s.Key, s.N, "secp256k1", s.env.Seed), s.T, use), nil, nil
	case "eddsa-keygen":
		return sim.EDDSAKeygen(seed, keyIDs(s.Key, s.N, "ed25519", s.env.Seed), s.T), nil, nil
	case "ecdsa-signing", "eddsa-signing":
		in := s.keys.Copy().Subset(s.Sel)
		return in.SignWorld(seed, s.T, s.Msg, sim.SignOpts{}), in, nil
	case "ecdsa-resharing", "eddsa-resharing":
		in := s.keys.Copy().Subset(s.Sel)
		w, err := in.ReshareWorld(s.env, seed, s.T, keyIDs("new", s.NN, s.curve(), s.env.Seed), s.NT, sim.ReshareOpts{OldN: s.N, PreOverride: s.preOverride})
		return w, in, err
	}
	return nil, nil, fmt.Errorf("unknown protocol %q", s.Proto)
}

// outcome checks a run in which every message was delivered: nobody reported an error, everybody finished exactly
// once, and the result passes the protocol's oracle.
func (s *session) outcome(r *core.Result, w *sim.World, in keyset, prefix string) {
	if errs := errorsOf(w); len(errs) > 0 {
		r.Fail(prefix+":error:"+s.Proto, "%s: an honest party reported an error: %s", s.desc(), core.Clip(strings.Join(errs, " | "), 500))
		return
	}
	var stuck []string
	for _, n := range w.Nodes {
		if len(n.Ended) == 0 {
			stuck = append(stuck, fmt.Sprintf("%s(round %d, waiting for %d)", n.Name, roundOf(n), len(n.Party.WaitingFor())))
		}
		if len(n.Ended) > 1 {
			r.Fail(prefix+":ended-twice:"+s.Proto, "%s: %s emitted %d results", s.desc(), n.Name, len(n.Ended))
		}
	}
	if len(stuck) > 0 {
		r.Fail(prefix+":deadlock:"+s.Proto, "%s: every sent message has been delivered and every party started, but %v never finished", s.desc(), stuck)
		return
	}
	switch {
	case strings.HasSuffix(s.Proto, "keygen"):
		views, _ := viewsOf(w, "")
		keySharingOracle(r, s.curve(), s.T, views, nil, nil, nil, s.curve() == "secp256k1")
	case strings.HasSuffix(s.Proto, "signing"):
		outs, _ := sigOuts(w)
		if isEd(s.curve()) {
			eddsaSigOracle(r, s.pub, s.Msg, 0, outs)
		} else {
			ecdsaSigOracle(r, s.pub, s.Msg, 0, outs)
		}
	default:
		nk, _ := in.FromEnded(w, "new")
		keySharingOracle(r, s.curve(), s.NT, nk.Views(), nil, &s.pub, nil, s.curve() == "secp256k1")
		for i := 0; i < in.N(); i++ {
			if in.Xi(i).Sign() != 0 {
				r.Fail(prefix+":old-not-erased", "%s: old member %d keeps its share after completion", s.desc(), i)
			}
		}
	}
	r.Count("outcomes_checked", 1)
}

// sentProfile is what C07 compares across schedules: per party, the multiset of (type, recipients, flags).
func sentProfile(w *sim.World) map[string]string {
	out := map[string]string{}
	for _, n := range w.Nodes {
		out[n.Name] = strings.Join(w.SentMultiset(n), ";")
	}
	return out
}

// shortFieldsRun: honest sessions with reproducible per-party randomness, repeated until every message field whose usual
// encoding is 32 bytes (digests, scalars, coordinates) has also been sent with a shorter one. The senders encode numbers
// with big.Int.Bytes(), which drops leading zero bytes, so one value in 256 is shorter than usual; every receiver has to
// take it. A single end-to-end run practically never contains such a value for a given field.
func shortFieldsRun(r *core.Result, env *core.Env, p core.P, max int) {
	s, err := sessionFromP(env, p)
	if err != nil {
		r.Inconcl("session setup failed: %v", err)
		return
	}
	maxLen, short := map[string]int{}, map[string]int{}
	first, varies := map[string]string{}, map[string]bool{} // a field that carries the same bytes in every message (the group key) cannot become short
	defer func() { sim.ParamHook = nil }()
	allSeen := func() bool {
		n := 0
		for k, l := range maxLen {
			if l == 32 && varies[k] {
				n++
				if short[k] == 0 {
					return false
				}
			}
		}
		return n > 0
	}
	sessions := 0
	for k := 0; k < max; k++ {
		kk := k
		sim.ParamHook = func(pp *tss.Parameters) {
			pp.SetRand(&detReader{seed: []byte(fmt.Sprintf("short/%d/%d/%s/%s", env.Seed, kk, pp.PartyID().Id, pp.PartyID().Moniker))})
		}
		w, in, err := s.make(env.Seed + int64(k))
		if err != nil {
			r.Inconcl("cannot build: %v", err)
			return
		}
		w.Run(sim.StartsThen(sim.FIFO), nil)
		sessions++
		var shortHere []string
		for _, m := range w.Msgs {
			dm, err := sim.DecodeWire(m.Wire)
			if err != nil {
				continue
			}
			for _, f := range sim.FieldsOfMsg(dm) {
				vals, _ := sim.GetField(m.Wire, f.Name)
				key := m.Short + "." + f.Name
				for _, v := range vals {
					if len(v) > maxLen[key] {
						maxLen[key] = len(v)
					}
					if fv, ok := first[key]; !ok {
						first[key] = string(v)
					} else if fv != string(v) && !f.Repeated {
						varies[key] = true
					}
				}
				if f.Repeated && len(vals) > 0 {
					varies[key] = true
				}
				for _, v := range vals {
					if maxLen[key] >= 32 && len(v) < maxLen[key] && (!f.Repeated || maxLen[key] == 32) {
						short[key]++
						shortHere = append(shortHere, fmt.Sprintf("%s=%dB", key, len(v)))
					}
				}
			}
		}
		s.outcome(r, w, in, "short-fields")
		if r.Verdict == core.Violated {
			r.Msg += fmt.Sprintf(" [session %d of the short-encoding series; shorter-than-usual fields in it: %v]", k, shortHere)
			r.Witness = strings.Join(w.Trace(100), "\n")
			return
		}
		if k >= 20 && allSeen() {
			break
		}
	}
	r.Count("short_field_sessions", int64(sessions))
	for k, l := range maxLen {
		if short[k] > 0 {
			r.AddSet("fields_seen_with_a_leading_zero_byte", fmt.Sprintf("%s:%s", s.Proto, k))
		} else if l == 32 && varies[k] {
			r.AddSet("fields_of_32_bytes_never_seen_short", fmt.Sprintf("%s:%s", s.Proto, k))
		}
	}
	if len(short) == 0 {
		r.Inconcl("%d sessions and no field was ever shorter than usual", sessions)
		return
	}
	r.NonTrivial = true
}
