package checks

import (
	"fmt"
	"math/big"
	"strings"

	"github.com/bnb-chain/tss-lib/v2/tss"

	"verif/core"
	"verif/ref"
	"verif/sim"
)

// Fault injection at the wire, shared by C05 (blame / no bad output) and C06 (no crash).
// A deviating party D runs unmodified code; an interceptor decodes its outgoing message of one type,
// alters one field (or list shape), re-encodes and delivers it. Broadcasts are altered identically for
// all recipients (reliable broadcast is the library's stated assumption), p2p messages for every recipient.

type faultSpec struct {
	Type  string // message short name
	Field string
	Index string // "" (scalar) | first | last | s0..s9 (seeded) | <number>
	How   string
	Pos   string // low | mid | high
	One   bool   // p2p types only: alter the copy for ONE recipient, the other recipients get the genuine message
	// Victim (with One): "" = the first recipient routed | same-index = the recipient whose index in its committee equals
	// the deviator's index in its own | other-index = the first recipient with a different index | last = the last recipient
	Victim string
}

func (f faultSpec) String() string {
	ix := ""
	if f.Index != "" {
		ix = "[" + f.Index + "]"
	}
	one := ""
	if f.One {
		one = "/one-recipient"
		if f.Victim != "" {
			one += ":" + f.Victim
		}
	}
	return fmt.Sprintf("%s.%s%s:%s@%s%s", f.Type, f.Field, ix, f.How, f.Pos, one)
}

func (f faultSpec) P(base core.P) core.P {
	p := core.P{}
	for k, v := range base {
		p[k] = v
	}
	p["ftype"], p["ffield"], p["findex"], p["fhow"], p["fpos"], p["fone"], p["fvictim"] = f.Type, f.Field, f.Index, f.How, f.Pos, f.One, f.Victim
	return p
}

func faultFromP(p core.P) faultSpec {
	return faultSpec{Type: p.Str("ftype"), Field: p.Str("ffield"), Index: p.Str("findex"), How: p.Str("fhow"), Pos: p.Str("fpos"), One: p.Bool("fone"), Victim: p.Str("fvictim")}
}

// uncoveredFields: (type.field) whose value no commitment opening, share check or ZK proof covers (from the protocol
// description). An alteration there may go unattributed, but must still never produce a bad output.
var uncoveredFields = map[string]bool{
	"ecdsa-signing/SignRound3Message.theta": true,
	"ecdsa-signing/SignRound9Message.s":     true,
	"eddsa-signing/SignRound3Message.s":     true,
	// the old committee's claim about the public key / session id is only cross-checked between old members
	"ecdsa-resharing/DGRound1Message.ecdsa_pub_x": true, "ecdsa-resharing/DGRound1Message.ecdsa_pub_y": true, "ecdsa-resharing/DGRound1Message.ssid": true,
	"eddsa-resharing/DGRound1Message.eddsa_pub_x": true, "eddsa-resharing/DGRound1Message.eddsa_pub_y": true,
}

// fieldCatalogue lists (type, field, repeated, length) for every message type of a protocol by looking at an honest run.
type fieldInfo struct {
	Type, Field string
	Repeated    bool
	Len         int
}

func discoverFields(s *session) ([]fieldInfo, error) {
	w, _, err := s.make(s.env.Seed)
	if err != nil {
		return nil, err
	}
	seen := map[string]bool{}
	var out []fieldInfo
	w.OnSent = append(w.OnSent, func(m *sim.Msg) {
		if seen[m.Short] {
			return
		}
		seen[m.Short] = true
		fs, err := sim.FieldsOf(m.Wire)
		if err != nil {
			return
		}
		for _, f := range fs {
			vals, _ := sim.GetField(m.Wire, f.Name)
			out = append(out, fieldInfo{Type: m.Short, Field: f.Name, Repeated: f.Repeated, Len: len(vals)})
		}
	})
	w.Run(sim.StartsThen(sim.FIFO), nil)
	return out, nil
}

// staticFields: the byte fields of every message type (names from the .proto files; list lengths are nominal and only used
// to pick indices - the runtime clamps them). Keeping this static keeps case generation independent of the code under test.
var staticFields = map[string][]fieldInfo{
	"ecdsa-keygen": {
		{"KGRound1Message", "commitment", false, 1}, {"KGRound1Message", "paillier_n", false, 1}, {"KGRound1Message", "n_tilde", false, 1},
		{"KGRound1Message", "h1", false, 1}, {"KGRound1Message", "h2", false, 1}, {"KGRound1Message", "dlnproof_1", true, 258}, {"KGRound1Message", "dlnproof_2", true, 258},
		{"KGRound2Message1", "share", false, 1}, {"KGRound2Message1", "facProof", true, 11},
		{"KGRound2Message2", "de_commitment", true, 5}, {"KGRound2Message2", "modProof", true, 163},
		{"KGRound3Message", "paillier_proof", true, 13},
	},
	"ecdsa-signing": {
		{"SignRound1Message1", "c", false, 1}, {"SignRound1Message1", "range_proof_alice", true, 6}, {"SignRound1Message2", "commitment", false, 1},
		{"SignRound2Message", "c1", false, 1}, {"SignRound2Message", "c2", false, 1}, {"SignRound2Message", "proof_bob", true, 10}, {"SignRound2Message", "proof_bob_wc", true, 12},
		{"SignRound3Message", "theta", false, 1},
		{"SignRound4Message", "de_commitment", true, 3}, {"SignRound4Message", "proof_alpha_x", false, 1}, {"SignRound4Message", "proof_alpha_y", false, 1}, {"SignRound4Message", "proof_t", false, 1},
		{"SignRound5Message", "commitment", false, 1},
		{"SignRound6Message", "de_commitment", true, 5}, {"SignRound6Message", "proof_alpha_x", false, 1}, {"SignRound6Message", "proof_alpha_y", false, 1}, {"SignRound6Message", "proof_t", false, 1},
		{"SignRound6Message", "v_proof_alpha_x", false, 1}, {"SignRound6Message", "v_proof_alpha_y", false, 1}, {"SignRound6Message", "v_proof_t", false, 1}, {"SignRound6Message", "v_proof_u", false, 1},
		{"SignRound7Message", "commitment", false, 1}, {"SignRound8Message", "de_commitment", true, 5}, {"SignRound9Message", "s", false, 1},
	},
	"ecdsa-resharing": {
		{"DGRound1Message", "ecdsa_pub_x", false, 1}, {"DGRound1Message", "ecdsa_pub_y", false, 1}, {"DGRound1Message", "v_commitment", false, 1}, {"DGRound1Message", "ssid", false, 1},
		{"DGRound2Message1", "paillier_n", false, 1}, {"DGRound2Message1", "modProof", true, 163}, {"DGRound2Message1", "n_tilde", false, 1}, {"DGRound2Message1", "h1", false, 1},
		{"DGRound2Message1", "h2", false, 1}, {"DGRound2Message1", "dlnproof_1", true, 258}, {"DGRound2Message1", "dlnproof_2", true, 258},
		{"DGRound3Message1", "share", false, 1}, {"DGRound3Message2", "v_decommitment", true, 5}, {"DGRound4Message1", "facProof", true, 11},
	},
	"eddsa-keygen": {
		{"KGRound1Message", "commitment", false, 1}, {"KGRound2Message1", "share", false, 1}, {"KGRound2Message2", "de_commitment", true, 5},
		{"KGRound2Message2", "proof_alpha_x", false, 1}, {"KGRound2Message2", "proof_alpha_y", false, 1}, {"KGRound2Message2", "proof_t", false, 1},
	},
	"eddsa-signing": {
		{"SignRound1Message", "commitment", false, 1}, {"SignRound2Message", "de_commitment", true, 3}, {"SignRound2Message", "proof_alpha_x", false, 1},
		{"SignRound2Message", "proof_alpha_y", false, 1}, {"SignRound2Message", "proof_t", false, 1}, {"SignRound3Message", "s", false, 1},
	},
	"eddsa-resharing": {
		{"DGRound1Message", "eddsa_pub_x", false, 1}, {"DGRound1Message", "eddsa_pub_y", false, 1}, {"DGRound1Message", "v_commitment", false, 1},
		{"DGRound3Message1", "share", false, 1}, {"DGRound3Message2", "v_decommitment", true, 5},
	},
}

// faultRun is one executed session with a deviating party.
type faultRun struct {
	w       *sim.World
	in      keyset
	s       *session
	dev     *sim.Node
	f       faultSpec
	applied int
	note    string
	victim  *sim.Node // one-recipient faults: who got the altered copy
}

// groupIndex is the position of n among the nodes of its group (= its index in its committee: nodes are added in id order).
func groupIndex(w *sim.World, n *sim.Node) int {
	i := 0
	for _, o := range w.Nodes {
		if o == n {
			return i
		}
		if o.Group == n.Group {
			i++
		}
	}
	return -1
}

func pickDeviator(w *sim.World, role, pos string) *sim.Node {
	var c []*sim.Node
	for _, n := range w.Nodes {
		if role == "all" || n.Group == role {
			c = append(c, n)
		}
	}
	switch pos {
	case "low":
		return c[0]
	case "high":
		return c[len(c)-1]
	}
	return c[len(c)/2]
}

// boundaryValue computes the catalogue value named `how` relative to the honest value v.
func boundaryValue(how string, v []byte, curve string, N *big.Int, seed int64, label string) ([]byte, bool) {
	q := orderOf(curve)
	old := new(big.Int).SetBytes(v)
	pow := func(k uint) *big.Int { return new(big.Int).Lsh(big1, k) }
	var nv *big.Int
	switch how {
	case "+1":
		nv = new(big.Int).Add(old, big1)
	case "-1":
		if old.Sign() == 0 {
			return nil, false
		}
		nv = new(big.Int).Sub(old, big1)
	case "random":
		rg := rng(seed, label)
		b := randBytes(rg, len(v))
		if len(b) == 0 {
			b = []byte{7}
		}
		if b[0] == 0 {
			b[0] = 1
		}
		if new(big.Int).SetBytes(b).Cmp(old) == 0 {
			b[len(b)-1] ^= 1
		}
		return b, true
	case "zero":
		return []byte{0}, true // one zero byte: passes the non-empty checks, decodes to the integer 0
	case "one":
		nv = big.NewInt(1)
	case "q-1":
		nv = new(big.Int).Sub(q, big1)
	case "q":
		nv = new(big.Int).Set(q)
	case "q+1":
		nv = new(big.Int).Add(q, big1)
	case "2q":
		nv = new(big.Int).Lsh(q, 1)
	case "kq":
		nv = new(big.Int).Mul(q, new(big.Int).Add(new(big.Int).Div(new(big.Int).Exp(q, big2, nil), big2), big.NewInt(12345))) // about q^3/2: inside Bob's s1 range, = 0 mod q
	case "N-1":
		nv = new(big.Int).Sub(N, big1)
	case "N":
		nv = new(big.Int).Set(N)
	case "N+1":
		nv = new(big.Int).Add(N, big1)
	case "N2":
		nv = new(big.Int).Mul(N, N)
	case "N2+1":
		nv = new(big.Int).Add(new(big.Int).Mul(N, N), big1)
	case "2^255":
		nv = pow(255)
	case "2^256":
		nv = pow(256)
	case "2^2047":
		nv = pow(2047)
	case "2^2048":
		nv = pow(2048)
	case "2^4096":
		nv = pow(4096)
	case "6000bit":
		nv = new(big.Int).Sub(pow(6000), big.NewInt(159))
	case "parity":
		nv = new(big.Int).Xor(old, big1)
	case "p": // field prime: a coordinate alias of 0
		if isEd(curve) {
			nv = new(big.Int).Set(ref.EdP)
		} else {
			nv = new(big.Int).Set(ref.SecpP)
		}
	case "2^63", "2^64-1", "2^64+2":
		nv = map[string]*big.Int{"2^63": pow(63), "2^64-1": new(big.Int).Sub(pow(64), big1), "2^64+2": new(big.Int).Add(pow(64), big2)}[how]
	default:
		return nil, false
	}
	if nv.Cmp(old) == 0 {
		return nil, false
	}
	b := nv.Bytes()
	if len(b) == 0 {
		b = []byte{0}
	}
	return b, true
}

func resolveIndex(ix string, n int, seed int64, label string) int {
	if n == 0 {
		return -1
	}
	switch {
	case ix == "first" || ix == "":
		return 0
	case ix == "last":
		return n - 1
	case strings.HasPrefix(ix, "s"):
		return rng(seed, label+ix).Intn(n)
	}
	var k int
	fmt.Sscanf(ix, "%d", &k)
	if k >= n {
		k = n - 1
	}
	return k
}

// runFault executes the session with the described single-field fault and returns the finished world.
func runFault(s *session, f faultSpec, sched string) (*faultRun, error) {
	w, in, err := s.make(s.env.Seed + int64(len(f.String())))
	if err != nil {
		return nil, err
	}
	sp := sim.SpecOf(s.Proto, f.Type)
	if sp == nil {
		return nil, fmt.Errorf("no message type %s in %s", f.Type, s.Proto)
	}
	fr := &faultRun{w: w, in: in, s: s, f: f}
	fr.dev = pickDeviator(w, sp.From, f.Pos)
	fr.dev.Deviator = true
	fx, _ := Fixtures(s.env.Repo)
	N := new(big.Int).Lsh(big1, 2047)
	if len(fx) > 0 {
		N = fx[fr.dev.Idx%len(fx)].PaillierSK.N
	}
	donorOf := func(m *sim.Msg, to *sim.Node) *sim.Msg {
		var best *sim.Msg
		for _, o := range w.Msgs {
			if o.Short != m.Short || o.From == fr.dev {
				continue
			}
			if best == nil {
				best = o
			}
			for _, rc := range o.Recips {
				if rc == to { // the donor's message to the same recipient, where there is one
					return o
				}
			}
		}
		return best
	}
	if f.How == "donor" || f.How == "mirror" {
		// hold D's message until a peer's message of the same type exists
		w.Hold = func(w *sim.World, m *sim.Msg) bool {
			if m.From != fr.dev || m.Short != f.Type {
				return false
			}
			return donorOf(m, nil) == nil
		}
	}
	cache := map[int][]byte{}
	var victim *sim.Node
	w.Rewrite = func(w *sim.World, m *sim.Msg, to *sim.Node) ([]byte, bool, *tss.PartyID, bool) {
		if m.From != fr.dev || m.Short != f.Type {
			return m.Wire, m.Bcast, m.From.PID, false
		}
		if f.One && !sp.Bcast {
			if victim == nil {
				ok := true
				switch f.Victim {
				case "same-index":
					ok = to != fr.dev && groupIndex(w, to) == groupIndex(w, fr.dev)
				case "other-index":
					ok = groupIndex(w, to) != groupIndex(w, fr.dev)
				case "last":
					ok = false
					var last *sim.Node
					for _, n := range w.Nodes {
						if n != fr.dev && (sp.To == "all" || sp.To == n.Group || sp.To == "old+new") {
							last = n
						}
					}
					ok = to == last
				}
				if ok {
					victim = to
					fr.victim = to
				}
			}
			if to != victim {
				return m.Wire, m.Bcast, m.From.PID, false
			}
		}
		if sp.Bcast {
			if c, ok := cache[m.ID]; ok {
				return c, m.Bcast, m.From.PID, false
			}
		}
		out := m.Wire
		if f.How == "mirror" {
			if d := donorOf(m, to); d != nil {
				out = d.Wire
				fr.applied++
			}
		} else if vals, err := sim.GetField(m.Wire, f.Field); err == nil {
			isList := false
			for _, fi := range staticFields[s.Proto] {
				if fi.Type == f.Type && fi.Field == f.Field {
					isList = fi.Repeated
				}
			}
			nv := make([][]byte, len(vals))
			copy(nv, vals)
			changed := false
			switch f.How {
			case "remove":
				if isList {
					if k := resolveIndex(f.Index, len(nv), s.env.Seed, f.String()); k >= 0 {
						nv = append(nv[:k], nv[k+1:]...)
						changed = true
					}
				} else {
					nv, changed = nil, true
				}
			case "list-empty":
				nv, changed = nil, isList
			case "list-short":
				if isList && len(nv) > 0 {
					nv, changed = nv[:len(nv)-1], true
				}
			case "list-long":
				if isList {
					nv, changed = append(nv, []byte{1}), true
				}
			case "list-one":
				if isList && len(nv) > 1 {
					nv, changed = nv[:1], true
				}
			case "list-two":
				if isList && len(nv) > 2 {
					nv, changed = nv[:2], true
				}
			case "donor":
				if d := donorOf(m, to); d != nil {
					if dv, err := sim.GetField(d.Wire, f.Field); err == nil {
						k := resolveIndex(f.Index, len(nv), s.env.Seed, f.String())
						if k >= 0 && k < len(dv) && string(dv[k]) != string(nv[k]) {
							nv[k], changed = dv[k], true
						}
					}
				}
			default:
				if k := resolveIndex(f.Index, len(nv), s.env.Seed, f.String()); k >= 0 {
					if b, ok := boundaryValue(f.How, nv[k], s.curve(), N, s.env.Seed, f.String()); ok {
						nv[k], changed = b, true
					}
				}
			}
			if f.How == "torsion2" && !isList && strings.HasSuffix(f.Field, "_x") {
				// an Edwards point given as two scalar fields: adding the point of order 2, (0,-1), negates both coordinates
				sib := strings.TrimSuffix(f.Field, "_x") + "_y"
				if yv, err := sim.GetField(m.Wire, sib); err == nil && len(yv) == 1 && len(nv) == 1 {
					x2 := new(big.Int).Sub(ref.EdP, new(big.Int).SetBytes(nv[0]))
					y2 := new(big.Int).Sub(ref.EdP, new(big.Int).SetBytes(yv[0]))
					if enc, err := sim.SetField(m.Wire, f.Field, [][]byte{x2.Bytes()}); err == nil {
						if enc2, err := sim.SetField(enc, sib, [][]byte{y2.Bytes()}); err == nil {
							out = enc2
							fr.applied++
						}
					}
				}
				changed = false
			}
			if changed {
				if enc, err := sim.SetField(m.Wire, f.Field, nv); err == nil {
					out = enc
					fr.applied++
				}
			}
		}
		cache[m.ID] = out
		return out, m.Bcast, m.From.PID, false
	}
	if sched == "slow-starters" {
		victims := map[int]bool{}
		for _, n := range w.Nodes {
			if n != fr.dev {
				victims[n.Idx] = true
			}
		}
		w.Run(sim.PreStart(victims), nil)
		return fr, nil
	}
	w.Run(sim.StartsThen(schedByName(sched, w)), nil)
	return fr, nil
}

// honestKeyAgreement: the relaxed key oracle for runs in which not everybody finishes: all honest parties that emitted key
// data agree on the public view, each one's share matches its public share point, and (if enough of them) they interpolate.
func honestKeyAgreement(r *core.Result, curve string, t int, views []*keyView, idx []int, wantPub *ref.Pt, prefix string) {
	if len(views) == 0 {
		return
	}
	v0 := views[0]
	q := orderOf(curve)
	for k, v := range views {
		if v.Pub == nil || !eqPt(v.Pub, v0.Pub) {
			r.Fail(prefix+":honest-keys-differ", "honest parties emitted different public keys")
			return
		}
		if len(v.Ks) != len(v0.Ks) || len(v.BigXj) != len(v0.BigXj) {
			r.Fail(prefix+":honest-keys-differ", "honest parties emitted key data of different shapes")
			return
		}
		for j := range v.Ks {
			if !eqInt(v.Ks[j], v0.Ks[j]) || !eqPt(v.BigXj[j], v0.BigXj[j]) {
				r.Fail(prefix+":honest-keys-differ", "honest parties emitted different Ks/BigXj at %d", j)
				return
			}
		}
		i := idx[k]
		if v.Xi == nil || i >= len(v.BigXj) || v.BigXj[i] == nil || !samePt(v.BigXj[i], refBaseMul(curve, v.Xi)) {
			r.Fail(prefix+":share-inconsistent", "an honest party emitted a share that does not match its public share point")
			return
		}
	}
	pub := refPt(v0.Pub)
	if wantPub != nil && !pub.Eq(*wantPub) {
		r.Fail(prefix+":pub-changed", "honest new members emitted key data for a different public key")
	}
	if len(views) >= t+1 {
		ids := make([]*big.Int, t+1)
		xs := make([]*big.Int, t+1)
		for k := 0; k <= t; k++ {
			ids[k] = new(big.Int).Mod(views[k].ShareID, q)
			xs[k] = new(big.Int).Mod(views[k].Xi, q)
		}
		x := ref.InterpolateAt(ids, xs, big0, q)
		if !refBaseMul(curve, x).Eq(pub) {
			r.Fail(prefix+":shares-inconsistent-with-pub", "t+1 honest shares do not interpolate to the emitted public key")
		}
	}
	r.Count("honest_outputs_checked", int64(len(views)))
}
