package checks

import (
	"fmt"
	"math/big"

	"github.com/bnb-chain/tss-lib/v2/crypto"
	"github.com/bnb-chain/tss-lib/v2/crypto/paillier"
	ecdsakeygen "github.com/bnb-chain/tss-lib/v2/ecdsa/keygen"
	eddsakeygen "github.com/bnb-chain/tss-lib/v2/eddsa/keygen"

	"verif/core"
	"verif/ref"
	"verif/sim"
)

// keyset abstracts over the two curves' stored key data so that resharing / history checks are written once.
type keyset interface {
	Curve() string
	N() int
	Snap(i int) snap
	Xi(i int) *big.Int
	Copy() keyset
	Subset(idx []int) keyset
	Pub() ref.Pt
	Views() []*keyView
	// SignWorld builds a signing session over all members of this set.
	SignWorld(seed int64, t int, msg *big.Int, o sim.SignOpts) *sim.World
	// ReshareWorld builds a resharing session from this (old) set to new ids.
	ReshareWorld(env *core.Env, seed int64, t int, newIDs []*big.Int, newT int, o sim.ReshareOpts) (*sim.World, error)
	// FromEnded collects the key data emitted by the nodes of the given group (in node order).
	FromEnded(w *sim.World, group string) (keyset, []string)
}

func cpInt(v *big.Int) *big.Int {
	if v == nil {
		return nil
	}
	return new(big.Int).Set(v)
}

func cpInts(v []*big.Int) []*big.Int {
	o := make([]*big.Int, len(v))
	for i := range v {
		o[i] = cpInt(v[i])
	}
	return o
}

func cpPt(p *crypto.ECPoint) *crypto.ECPoint {
	if p == nil {
		return nil
	}
	return crypto.NewECPointNoCurveCheck(p.Curve(), p.X(), p.Y())
}

func cpPts(v []*crypto.ECPoint) []*crypto.ECPoint {
	o := make([]*crypto.ECPoint, len(v))
	for i := range v {
		o[i] = cpPt(v[i])
	}
	return o
}

func copyECDSA(d ecdsakeygen.LocalPartySaveData) ecdsakeygen.LocalPartySaveData {
	o := ecdsakeygen.LocalPartySaveData{}
	if d.PaillierSK != nil {
		o.PaillierSK = &paillier.PrivateKey{PublicKey: paillier.PublicKey{N: cpInt(d.PaillierSK.N)}, LambdaN: cpInt(d.PaillierSK.LambdaN),
			PhiN: cpInt(d.PaillierSK.PhiN), P: cpInt(d.PaillierSK.P), Q: cpInt(d.PaillierSK.Q)}
	}
	o.NTildei, o.H1i, o.H2i, o.Alpha, o.Beta, o.P, o.Q = cpInt(d.NTildei), cpInt(d.H1i), cpInt(d.H2i), cpInt(d.Alpha), cpInt(d.Beta), cpInt(d.P), cpInt(d.Q)
	o.Xi, o.ShareID = cpInt(d.Xi), cpInt(d.ShareID)
	o.Ks, o.NTildej, o.H1j, o.H2j = cpInts(d.Ks), cpInts(d.NTildej), cpInts(d.H1j), cpInts(d.H2j)
	o.BigXj = cpPts(d.BigXj)
	o.PaillierPKs = make([]*paillier.PublicKey, len(d.PaillierPKs))
	for i, p := range d.PaillierPKs {
		if p != nil {
			o.PaillierPKs[i] = &paillier.PublicKey{N: cpInt(p.N)}
		}
	}
	o.ECDSAPub = cpPt(d.ECDSAPub)
	return o
}

func copyEDDSA(d eddsakeygen.LocalPartySaveData) eddsakeygen.LocalPartySaveData {
	o := eddsakeygen.LocalPartySaveData{}
	o.Xi, o.ShareID = cpInt(d.Xi), cpInt(d.ShareID)
	o.Ks = cpInts(d.Ks)
	o.BigXj = cpPts(d.BigXj)
	o.EDDSAPub = cpPt(d.EDDSAPub)
	return o
}

// ---- ECDSA

type ecdsaSet struct {
	d []ecdsakeygen.LocalPartySaveData
}

func (s *ecdsaSet) Curve() string     { return "secp256k1" }
func (s *ecdsaSet) N() int            { return len(s.d) }
func (s *ecdsaSet) Snap(i int) snap   { return snapECDSA(&s.d[i]) }
func (s *ecdsaSet) Xi(i int) *big.Int { return s.d[i].Xi }
func (s *ecdsaSet) Pub() ref.Pt       { return refPt(s.d[0].ECDSAPub) }
func (s *ecdsaSet) Copy() keyset {
	o := &ecdsaSet{}
	for i := range s.d {
		o.d = append(o.d, copyECDSA(s.d[i]))
	}
	return o
}
func (s *ecdsaSet) Subset(idx []int) keyset {
	o := &ecdsaSet{}
	for _, i := range idx {
		o.d = append(o.d, s.d[i])
	}
	return o
}
func (s *ecdsaSet) Views() []*keyView {
	var v []*keyView
	for i := range s.d {
		v = append(v, viewECDSA(&s.d[i]))
	}
	return v
}
func (s *ecdsaSet) SignWorld(seed int64, t int, msg *big.Int, o sim.SignOpts) *sim.World {
	return sim.ECDSASigning(seed, s.d, t, msg, o)
}
func (s *ecdsaSet) ReshareWorld(env *core.Env, seed int64, t int, newIDs []*big.Int, newT int, o sim.ReshareOpts) (*sim.World, error) {
	pre, err := PreParams(env.Repo)
	if err != nil {
		return nil, err
	}
	if len(newIDs) > len(pre) {
		return nil, fmt.Errorf("only %d vendored pre-parameter sets", len(pre))
	}
	// rotate the pre-parameter sets so that successive resharings do not give a node the same set twice in a row
	rot := make([]ecdsakeygen.LocalPreParams, len(newIDs))
	for i := range rot {
		rot[i] = pre[(i+int(seed%5)+5)%5]
	}
	for i, pp := range o.PreOverride {
		if i < len(rot) {
			rot[i] = pp
		}
	}
	return sim.ECDSAResharing(seed, s.d, t, newIDs, newT, rot, o), nil
}
func (s *ecdsaSet) FromEnded(w *sim.World, group string) (keyset, []string) {
	o := &ecdsaSet{}
	var missing []string
	for _, n := range w.Nodes {
		if n.Group != group {
			continue
		}
		if len(n.Ended) == 0 {
			missing = append(missing, n.Name)
			continue
		}
		o.d = append(o.d, *n.Ended[0].(*ecdsakeygen.LocalPartySaveData))
	}
	return o, missing
}

// ---- EdDSA

type eddsaSet struct {
	d []eddsakeygen.LocalPartySaveData
}

func (s *eddsaSet) Curve() string     { return "ed25519" }
func (s *eddsaSet) N() int            { return len(s.d) }
func (s *eddsaSet) Snap(i int) snap   { return snapEDDSA(&s.d[i]) }
func (s *eddsaSet) Xi(i int) *big.Int { return s.d[i].Xi }
func (s *eddsaSet) Pub() ref.Pt       { return refPt(s.d[0].EDDSAPub) }
func (s *eddsaSet) Copy() keyset {
	o := &eddsaSet{}
	for i := range s.d {
		o.d = append(o.d, copyEDDSA(s.d[i]))
	}
	return o
}
func (s *eddsaSet) Subset(idx []int) keyset {
	o := &eddsaSet{}
	for _, i := range idx {
		o.d = append(o.d, s.d[i])
	}
	return o
}
func (s *eddsaSet) Views() []*keyView {
	var v []*keyView
	for i := range s.d {
		v = append(v, viewEDDSA(&s.d[i]))
	}
	return v
}
func (s *eddsaSet) SignWorld(seed int64, t int, msg *big.Int, o sim.SignOpts) *sim.World {
	return sim.EDDSASigning(seed, s.d, t, msg, o)
}
func (s *eddsaSet) ReshareWorld(env *core.Env, seed int64, t int, newIDs []*big.Int, newT int, o sim.ReshareOpts) (*sim.World, error) {
	return sim.EDDSAResharing(seed, s.d, t, newIDs, newT, o), nil
}
func (s *eddsaSet) FromEnded(w *sim.World, group string) (keyset, []string) {
	o := &eddsaSet{}
	var missing []string
	for _, n := range w.Nodes {
		if n.Group != group {
			continue
		}
		if len(n.Ended) == 0 {
			missing = append(missing, n.Name)
			continue
		}
		o.d = append(o.d, *n.Ended[0].(*eddsakeygen.LocalPartySaveData))
	}
	return o, missing
}

// loadKeyset produces the key of a case: "vendored" (ECDSA only) or a fresh keygen of this run.
func loadKeyset(env *core.Env, curve string, n, t int, pattern string, label string) (keyset, error) {
	if isEd(curve) {
		k, err := EDDSAKey(env, n, t, pattern, label)
		if err != nil {
			return nil, err
		}
		return &eddsaSet{k}, nil
	}
	k, err := ECDSAKey(env, n, t, pattern)
	if err != nil {
		return nil, err
	}
	// always hand out a deep copy: resharing erases the caller-held Xi and the fixtures are cached per process
	return (&ecdsaSet{k}).Copy(), nil
}
