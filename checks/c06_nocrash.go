package checks

import (
	"crypto/rand"
	"fmt"
	"math/big"
	"os"
	"strings"
	"time"

	"github.com/bnb-chain/tss-lib/v2/common"
	"github.com/bnb-chain/tss-lib/v2/crypto"
	"github.com/bnb-chain/tss-lib/v2/crypto/ckd"
	cmt "github.com/bnb-chain/tss-lib/v2/crypto/commitments"
	"github.com/bnb-chain/tss-lib/v2/crypto/dlnproof"
	"github.com/bnb-chain/tss-lib/v2/crypto/facproof"
	"github.com/bnb-chain/tss-lib/v2/crypto/modproof"
	"github.com/bnb-chain/tss-lib/v2/crypto/mta"
	"github.com/bnb-chain/tss-lib/v2/crypto/paillier"
	"github.com/bnb-chain/tss-lib/v2/crypto/schnorr"
	"github.com/bnb-chain/tss-lib/v2/crypto/vss"
	"github.com/bnb-chain/tss-lib/v2/tss"

	"verif/core"
	"verif/ref"
	"verif/sim"
)

// C06 — no input from the network can crash a party.
//
// Refuting events: the worker process dies (panic in a library goroutine, runtime deadlock report), a panic in the
// calling goroutine, a call that does not return, library goroutines still alive at quiescence. What a call
// returns (accept / ignore / error) is irrelevant here.

func init() {
	core.Register(&core.Check{
		ID:    "C06",
		Level: "fault_enumeration",
		Rule: "W1 protocol level: the single-field interceptor of C05 with the boundary catalogue {one zero byte,1,q-1,q,q+1,2q,k*q,N-1,N,N+1,N^2,N^2+1,2^255,2^256,2^2047,2^2048,2^4096,6000-bit,parity flip,field prime,2^63,2^64-1,2^64+2, list emptied/shortened/lengthened/reduced to one or two} on every field of every message (quick: 6 catalogue values per field rotated by VERIF_SEED, thorough: all) " +
			"plus crafted relations that need the deviator to react to honest messages (theta_D = -sum(theta_honest); commitments that open to 0..3 values in every commit/decommit pair of every protocol). W2 wire level: for every message type of every protocol, seeded mutants of the genuine wire bytes (bit flips, truncations, junk, duplicated / unknown protobuf fields, foreign type URL, random bytes) and every sender index in [-1,n+1], sender = recipient, both broadcast flags, handed to UpdateFromBytes of a live party in the right round. " +
			"W3 direct: every exported verifier / decoder of the anchored packages with catalogue arguments and arities 0..n+2. Class = (level, protocol, message.field | function, catalogue class); non-trivial when the call / run was made and returned.",
		Assumptions: []string{"nil arguments and negative big.Ints are outside the property's value classes (they cannot arrive from the wire)", "resource exhaustion by merely huge inputs is not attempted beyond the 6000-bit class"},
		Gen:         c06Gen,
		Run:         c06Run,
		MinEvents:   []string{"protocol_runs_survived", "wire_mutants_survived", "direct_calls_survived"},
	})
}

var boundaryHows = []string{"zero", "one", "q-1", "q", "q+1", "2q", "kq", "N-1", "N", "N+1", "N2", "N2+1", "2^255", "2^256", "2^2047", "2^2048", "2^4096", "6000bit", "parity", "p", "2^63", "2^64-1", "2^64+2"}
var listHows = []string{"list-empty", "list-short", "list-long", "list-one", "list-two"}

func c06Gen(tier string, seed int64) []core.Case {
	var cs []core.Case
	k := int(seed % 89)
	for _, sc := range faultSessions(tier) {
		for _, fi := range staticFields[sc.proto] {
			hows := boundaryHows
			idxs := indexChoices(fi, "quick")
			if tier != "thorough" {
				var sub []string
				for j := 0; j < 6; j++ {
					sub = append(sub, boundaryHows[(k+j*4)%len(boundaryHows)])
				}
				hows = sub
				k++
			}
			for _, ix := range idxs {
				for hi, how := range hows {
					if tier != "thorough" && len(idxs) > 1 && (hi+len(ix))%len(idxs) != 0 {
						continue // quick: spread the catalogue values over the list positions instead of multiplying
					}
					f := faultSpec{fi.Type, fi.Field, ix, how, []string{"low", "mid", "high"}[(k+hi)%3], false, ""}
					id := fmt.Sprintf("W1/%s/%s", sc.proto, f.String())
					cs = append(cs, core.Case{ID: id, Class: id, Kind: "w1", P: f.P(sc.P()), Cost: sc.cost})
				}
			}
			if fi.Repeated {
				for _, how := range listHows {
					f := faultSpec{fi.Type, fi.Field, "", how, []string{"low", "mid", "high"}[k%3], false, ""}
					id := fmt.Sprintf("W1/%s/%s", sc.proto, f.String())
					cs = append(cs, core.Case{ID: id, Class: id, Kind: "w1", P: f.P(sc.P()), Cost: sc.cost})
				}
			}
		}
	}
	have := map[string]bool{}
	for _, c := range cs {
		have[c.ID] = true
	}
	// every component of the short proof lists set to a multiple of the group order (responses that are 0 modulo q make a
	// verifier multiply a point by zero): all positions, not the sampled first/last/seeded ones
	for _, sc := range faultSessions(tier) {
		for _, fi := range staticFields[sc.proto] {
			if !fi.Repeated || fi.Len > 13 || fi.Len < 2 {
				continue
			}
			for ix := 0; ix < fi.Len; ix++ {
				for _, how := range []string{"q", "2q"} {
					f := faultSpec{fi.Type, fi.Field, fmt.Sprint(ix), how, []string{"low", "mid", "high"}[(k+ix)%3], false, ""}
					id := fmt.Sprintf("W1/%s/%s", sc.proto, f.String())
					if !have[id] {
						cs = append(cs, core.Case{ID: id, Class: id, Kind: "w1", P: f.P(sc.P()), Cost: sc.cost})
					}
				}
			}
		}
	}
	// the smallest committees, reduced catalogue
	for _, sc := range smallFaultSessions() {
		for fiI, fi := range staticFields[sc.proto] {
			ix := ""
			if fi.Repeated {
				ix = "first"
			}
			hows := []string{"+1", "zero"}
			if tier == "thorough" {
				hows = []string{"+1", "zero", "N", "2^4096"}
			}
			for _, how := range hows {
				f := faultSpec{fi.Type, fi.Field, ix, how, []string{"low", "high"}[(k+fiI)%2], false, ""}
				id := fmt.Sprintf("W1/small/%s/%s", sc.proto, f.String())
				cs = append(cs, core.Case{ID: id, Class: id, Kind: "w1", P: f.P(sc.P()), Cost: sc.cost})
			}
			if fi.Repeated {
				// undecodable lists with the parties configured for a single verification slot (SetConcurrency(1)): a slot
				// that is not given back on an error path blocks the next verification
				for hi, how := range []string{"list-short", "list-empty", "+1", "zero", "+1"} {
					f := faultSpec{fi.Type, fi.Field, "", how, []string{"low", "high"}[(k+fiI)%2], false, ""}
					if hi >= 2 {
						f.Index = "first" // length prefixes / first components: the list keeps its arity but does not decode or verify
					}
					if hi == 4 {
						if fi.Len < 200 {
							continue
						}
						f.Index = fmt.Sprint(fi.Len / 2) // the second length prefix of a two-part list
					}
					p := f.P(sc.P())
					p["conc"] = 1
					id := fmt.Sprintf("W1/small/concurrency=1/%s/%s", sc.proto, f.String())
					cs = append(cs, core.Case{ID: id, Class: id, Kind: "w1", P: p, Cost: sc.cost})
				}
			}
		}
	}
	// one bad point-to-point message to ONE recipient, ordinary traffic afterwards: the victim reports an error in the
	// middle of the protocol and keeps receiving the other parties' (genuine) later messages
	for _, sc := range faultSessions(tier) {
		for _, fi := range staticFields[sc.proto] {
			if sp := sim.SpecOf(sc.proto, fi.Type); sp == nil || sp.Bcast {
				continue
			}
			for _, how := range []string{"+1", "zero"} {
				for _, pos := range []string{"low", "high"} {
					f := faultSpec{fi.Type, fi.Field, "first", how, pos, true, ""}
					if !fi.Repeated {
						f.Index = ""
					}
					id := fmt.Sprintf("W1/%s/%s", sc.proto, f.String())
					cs = append(cs, core.Case{ID: id, Class: id, Kind: "w1", P: f.P(sc.P()), Cost: sc.cost})
				}
			}
		}
	}
	// crafted relations
	type pair struct{ proto, c1, f1, c2, f2 string }
	pairs := []pair{
		{"ecdsa-signing", "SignRound1Message2", "commitment", "SignRound4Message", "de_commitment"},
		{"ecdsa-signing", "SignRound5Message", "commitment", "SignRound6Message", "de_commitment"},
		{"ecdsa-signing", "SignRound7Message", "commitment", "SignRound8Message", "de_commitment"},
		{"eddsa-signing", "SignRound1Message", "commitment", "SignRound2Message", "de_commitment"},
		{"ecdsa-keygen", "KGRound1Message", "commitment", "KGRound2Message2", "de_commitment"},
		{"eddsa-keygen", "KGRound1Message", "commitment", "KGRound2Message2", "de_commitment"},
		{"ecdsa-resharing", "DGRound1Message", "v_commitment", "DGRound3Message2", "v_decommitment"},
		{"eddsa-resharing", "DGRound1Message", "v_commitment", "DGRound3Message2", "v_decommitment"},
	}
	for _, pr := range pairs {
		for opens := 0; opens <= 3; opens++ {
			var sc sessCfg
			for _, c := range faultSessions(tier) {
				if c.proto == pr.proto {
					sc = c
				}
			}
			p := sc.P()
			p["c1"], p["f1"], p["c2"], p["f2"], p["opens"] = pr.c1, pr.f1, pr.c2, pr.f2, opens
			id := fmt.Sprintf("W1/%s/opens-to-%d-values/%s+%s", pr.proto, opens, pr.c1, pr.c2)
			cs = append(cs, core.Case{ID: id, Class: id, Kind: "opens", P: p, Cost: sc.cost})
		}
	}
	for _, sc := range faultSessions(tier) {
		if sc.proto == "ecdsa-signing" {
			id := "W1/ecdsa-signing/theta-sum-zero"
			cs = append(cs, core.Case{ID: id, Class: id, Kind: "theta", P: sc.P(), Cost: sc.cost})
		}
	}
	// W1, parameters: a participant whose Paillier / ring-Pedersen moduli are larger than the protocol's, with valid proofs
	for _, sc := range faultSessions(tier) {
		if sc.proto != "ecdsa-keygen" && sc.proto != "ecdsa-resharing" {
			continue
		}
		for _, weak := range []string{"large-ntilde", "large-paillier"} {
			p := sc.P()
			p["weak"], p["fpos"] = weak, "mid"
			id := fmt.Sprintf("W1/%s/oversized-parameters:%s", sc.proto, weak)
			cs = append(cs, core.Case{ID: id, Class: id, Kind: "weak", P: p, Cost: sc.cost + 6})
		}
	}
	// W2
	for _, sc := range faultSessions(tier) {
		for _, sp := range sim.Specs[sc.proto] {
			p := sc.P()
			p["target"] = sp.Short
			p["mutants"] = tierN(tier, 60, 600)
			id := fmt.Sprintf("W2/%s/%s", sc.proto, sp.Short)
			cs = append(cs, core.Case{ID: id, Class: id, Kind: "w2", P: p, Cost: sc.cost + 1})
		}
	}
	// W2 on committees of unequal size (a sender index admissible for one committee is out of range for the other one's stores)
	for _, sc := range []sessCfg{
		{"ecdsa-resharing", 3, 1, []int{0, 2}, 3, 1, "seeded", 7}, {"ecdsa-resharing", 5, 2, []int{0, 1, 2, 3}, 2, 1, "vendored", 6},
		{"eddsa-resharing", 3, 1, []int{0, 1, 2}, 2, 1, "seeded", 0.6},
	} {
		for _, sp := range sim.Specs[sc.proto] {
			p := sc.P()
			p["target"] = sp.Short
			p["mutants"] = 14
			id := fmt.Sprintf("W2/%s/old=%d,new=%d/%s", sc.proto, len(sc.sel), sc.nn, sp.Short)
			cs = append(cs, core.Case{ID: id, Class: id, Kind: "w2", P: p, Cost: sc.cost + 1})
		}
	}
	// W4: retransmissions at a later point - every time a party changes round (and when it has finished) it is handed,
	// once more, every message it has received so far, including those of rounds long past
	for _, sc := range append(faultSessions(tier), smallFaultSessions()...) {
		p := sc.P()
		id := fmt.Sprintf("W4/%s/n=%d,sel=%v,new=%d/late-retransmissions", sc.proto, sc.n, sc.sel, sc.nn)
		cs = append(cs, core.Case{ID: id, Class: id, Kind: "w4", P: p, Cost: sc.cost * 3})
	}
	// W3
	for _, fn := range w3Names() {
		id := "W3/" + fn
		cs = append(cs, core.Case{ID: id, Class: id, Kind: "w3", P: core.P{"fn": fn, "n": tierN(tier, 150, 1500)}, Cost: 3})
	}
	return cs
}

// libGoroutinesLeft: goroutines that run library code and were not started for the harness, after a grace period.
func libGoroutinesLeft() []string {
	var left []string
	// verification goroutines that a round spawned before it returned an error finish their (finite) work on their own:
	// only what is still there after a long grace (up to 20 s of polling) is a leftover
	for i := 0; i < 1000; i++ {
		left = left[:0]
		for _, g := range strings.Split(allStacks(), "\n\n") {
			if strings.Contains(g, "github.com/bnb-chain/tss-lib/v2/") && !strings.Contains(g, "verif/checks.") && !strings.Contains(g, "verif/core.") {
				// a frame line, not only "created by"
				for _, ln := range strings.Split(g, "\n") {
					if strings.HasPrefix(ln, "github.com/bnb-chain/tss-lib/v2/") {
						left = append(left, g)
						break
					}
				}
			}
		}
		if len(left) == 0 {
			return nil
		}
		time.Sleep(20 * time.Millisecond)
	}
	return left
}

func c06Run(c core.Case, env *core.Env) core.Result {
	r := res(c)
	switch c.Kind {
	case "w3":
		c06Direct(&r, c.P.Str("fn"), c.P.Int("n"), env)
		return r
	}
	s, err := sessionFromP(env, c.P)
	if err != nil {
		r.Inconcl("session setup failed: %v", err)
		return r
	}
	if v := c.P.Int("conc"); v > 0 {
		prev := sim.Concurrency
		sim.Concurrency = v
		defer func() { sim.Concurrency = prev }()
	}
	switch c.Kind {
	case "w1":
		f := faultFromP(c.P)
		fr, err := runFault(s, f, "fifo")
		if err != nil {
			r.Inconcl("cannot run: %v", err)
			return r
		}
		if fr.applied == 0 {
			r.Inconcl("catalogue value %s not applicable to this field in this run", f)
			return r
		}
		c06After(&r, fr.w, "W1:"+s.Proto+"/"+f.Type+"."+f.Field)
	case "weak":
		fr, err := runWeakParams(s, c.P.Str("fpos"), c.P.Str("weak"))
		if err != nil {
			r.Inconcl("cannot run: %v", err)
			return r
		}
		c06After(&r, fr.w, "W1:"+s.Proto+"/oversized-parameters:"+c.P.Str("weak"))
	case "opens":
		c06Opens(&r, s, c.P)
	case "theta":
		c06Theta(&r, s)
	case "w2":
		c06Wire(&r, s, c.P.Str("target"), c.P.Int("mutants"), env)
	case "w4":
		c06Late(&r, s, env)
	}
	return r
}

func btoi(b bool) int {
	if b {
		return 1
	}
	return 0
}

// c06Late: a transport with at-least-once delivery and arbitrary delay. After every step in which a party's round changed,
// and once more after it finished, every genuine message that party has received so far is handed to it again. Each call
// must return; the run must still end with the protocol's result (the outcome oracle is applied).
func c06Late(r *core.Result, s *session, env *core.Env) {
	w, in, err := s.make(env.Seed + 11)
	if err != nil {
		r.Inconcl("cannot build: %v", err)
		return
	}
	type rec struct {
		wire []byte
		from *tss.PartyID
		bc   bool
		key  string
	}
	got := map[*sim.Node][]rec{}
	lastRound := map[*sim.Node]int{}
	finishedReplayed := map[*sim.Node]bool{}
	failed := false
	replay := func(n *sim.Node, why string) {
		list := got[n]
		if strings.HasPrefix(why, "in the middle") {
			// newest first, so that the oldest message is the one handed in last
			rev := make([]rec, len(list))
			for i := range list {
				rev[len(list)-1-i] = list[i]
			}
			list = rev
		}
		for _, m := range list {
			if failed {
				return
			}
			if p, msg, st := guard(func() { n.Party.UpdateFromBytes(m.wire, m.from, m.bc) }); p {
				r.Fail("W4:panic:"+core.TopLibFrame(st), "%s panicked when %s was handed to it again %s (round %d): %s", n.Name, m.key, why, roundOf(n), msg)
				r.Witness = st
				failed = true
				return
			}
			r.Count("late_retransmissions_survived", 1)
		}
	}
	w.OnDelivered = append(w.OnDelivered, func(ev *sim.Event, ok bool, err *tss.Error) {
		if ev.Tag == "" && ev.Msg != nil {
			got[ev.Node] = append(got[ev.Node], rec{ev.Wire, ev.FromPID, ev.Bcast, ev.Msg.Key()})
		}
	})
	w.AfterStep = append(w.AfterStep, func(ev *sim.Event) {
		n := ev.Node
		if n == nil || failed || !n.Started {
			return
		}
		if len(n.Ended) > 0 {
			if !finishedReplayed[n] {
				finishedReplayed[n] = true
				replay(n, "after it had finished")
			}
			return
		}
		if cur := roundOf(n); cur != lastRound[n] {
			lastRound[n] = cur
			replay(n, "after a round change")
		} else if ev.Kind == sim.EvDeliver && ev.Tag == "" {
			// also in the middle of a round (some of the round's messages are in, others are not)
			replay(n, "in the middle of a round")
		}
	})
	// a party that panicked inside a call keeps its mutex: nothing more is delivered once a retransmission has failed
	stop := func(*sim.World) bool { return failed }
	w.Run(sim.StartsThen(sim.FIFO), stop)
	if failed {
		return
	}
	// parties that finished during the last steps
	for _, n := range w.Nodes {
		if len(n.Ended) > 0 && !finishedReplayed[n] {
			finishedReplayed[n] = true
			replay(n, "after it had finished")
		}
	}
	w.Run(sim.FIFO, stop)
	if failed {
		return
	}
	s.outcome(r, w, in, "W4")
	c06After(r, w, "W4:"+s.Proto)
	r.NonTrivial = r.Obs["late_retransmissions_survived"] > 0
	r.Sample = map[string]any{"case": "W4/" + s.Proto, "retransmissions": r.Obs["late_retransmissions_survived"]}
}

func c06After(r *core.Result, w *sim.World, what string) {
	r.Count("protocol_runs_survived", 1)
	r.Count("steps", int64(len(w.Steps)))
	for _, e := range errorsOf(w) {
		r.AddSet("abort_sites", core.SigClean(e[strings.Index(e, ":")+1:]))
	}
	if left := libGoroutinesLeft(); len(left) > 0 {
		r.Fail("goroutine-left:"+core.TopLibFrame(left[0]), "%s: %d library goroutine(s) still alive after the run reached quiescence", what, len(left))
		r.Witness = strings.Join(left, "\n\n")
		r.Recycle = true
	}
	r.NonTrivial = true
	if os.Getenv("VCHECK_TRACE") != "" {
		r.Sample = map[string]any{"trace": w.Trace(400)}
	}
}

// c06Opens: the deviator's commitment is H(r, v1..vk) for k = opens values and its decommitment is [r, v1..vk]: it verifies,
// but opens to the wrong number of values.
func c06Opens(r *core.Result, s *session, p core.P) {
	w, _, err := s.make(s.env.Seed + 5)
	if err != nil {
		r.Inconcl("cannot build: %v", err)
		return
	}
	sp := sim.SpecOf(s.Proto, p.Str("c1"))
	dev := pickDeviator(w, sp.From, "mid")
	dev.Deviator = true
	rr := big.NewInt(123456789)
	D := []*big.Int{rr}
	for i := 0; i < p.Int("opens"); i++ {
		D = append(D, big.NewInt(int64(7+i)))
	}
	C := common.SHA512_256i(D...)
	applied := 0
	cache := map[int][]byte{}
	w.Rewrite = func(w *sim.World, m *sim.Msg, to *sim.Node) ([]byte, bool, *tss.PartyID, bool) {
		if m.From != dev {
			return m.Wire, m.Bcast, m.From.PID, false
		}
		if c, ok := cache[m.ID]; ok {
			return c, m.Bcast, m.From.PID, false
		}
		out := m.Wire
		switch m.Short {
		case p.Str("c1"):
			if enc, err := sim.SetField(m.Wire, p.Str("f1"), [][]byte{C.Bytes()}); err == nil {
				out = enc
				applied++
			}
		case p.Str("c2"):
			var vals [][]byte
			for _, d := range D {
				vals = append(vals, d.Bytes())
			}
			if enc, err := sim.SetField(m.Wire, p.Str("f2"), vals); err == nil {
				out = enc
				applied++
			}
		}
		cache[m.ID] = out
		return out, m.Bcast, m.From.PID, false
	}
	w.Run(sim.StartsThen(sim.FIFO), nil)
	if applied < 2 {
		r.Inconcl("the commit/decommit pair was not both sent in this run")
		return
	}
	c06After(r, w, fmt.Sprintf("W1:%s commitment opening to %d values", s.Proto, p.Int("opens")))
}

// c06Theta: the deviating signer waits for every honest theta_i and then announces theta_D = -sum(theta_honest) mod q.
func c06Theta(r *core.Result, s *session) {
	w, _, err := s.make(s.env.Seed + 6)
	if err != nil {
		r.Inconcl("cannot build: %v", err)
		return
	}
	dev := pickDeviator(w, "all", "high")
	dev.Deviator = true
	honest := len(w.Nodes) - 1
	thetas := func() []*big.Int {
		var out []*big.Int
		for _, m := range w.Msgs {
			if m.Short == "SignRound3Message" && m.From != dev {
				if v, err := sim.GetField(m.Wire, "theta"); err == nil {
					out = append(out, new(big.Int).SetBytes(v[0]))
				}
			}
		}
		return out
	}
	w.Hold = func(w *sim.World, m *sim.Msg) bool {
		return m.From == dev && m.Short == "SignRound3Message" && len(thetas()) < honest
	}
	applied := 0
	var cached []byte
	w.Rewrite = func(w *sim.World, m *sim.Msg, to *sim.Node) ([]byte, bool, *tss.PartyID, bool) {
		if m.From != dev || m.Short != "SignRound3Message" {
			return m.Wire, m.Bcast, m.From.PID, false
		}
		if cached == nil {
			sum := new(big.Int)
			for _, t := range thetas() {
				sum.Add(sum, t)
			}
			neg := new(big.Int).Neg(sum)
			neg.Mod(neg, secQ)
			if neg.Sign() == 0 {
				neg.Set(secQ)
			}
			if enc, err := sim.SetField(m.Wire, "theta", [][]byte{neg.Bytes()}); err == nil {
				cached = enc
				applied++
			}
		}
		if cached == nil {
			return m.Wire, m.Bcast, m.From.PID, false
		}
		return cached, m.Bcast, m.From.PID, false
	}
	w.Run(sim.StartsThen(sim.FIFO), nil)
	if applied == 0 {
		r.Inconcl("the crafted theta was never sent")
		return
	}
	c06After(r, w, "W1:ecdsa-signing theta values summing to zero")
}

// c06Wire: every time a genuine message of the target type is about to be delivered, mutants of it are handed to the
// recipient's UpdateFromBytes first (the recipient is live and in the right round).
func c06Wire(r *core.Result, s *session, target string, mutants int, env *core.Env) {
	w, _, err := s.make(env.Seed + 7)
	if err != nil {
		r.Inconcl("cannot build: %v", err)
		return
	}
	rg := rng(env.Seed, "w2"+s.Proto+target)
	var foreign []byte // a wire message of another type, for type-URL swaps
	perEvent := mutants
	fired := 0
	w.BeforeExec = append(w.BeforeExec, func(ev *sim.Event) {
		if ev.Kind != sim.EvDeliver {
			return
		}
		if ev.Msg.Short != target {
			if foreign == nil {
				foreign = ev.Msg.Wire
			}
			return
		}
		if fired >= 3 { // three recipients/occasions per run are enough; keeps the cost bounded
			return
		}
		fired++
		n := ev.Node
		for k := 0; k < perEvent; k++ {
			wire, from, bc, what := wireMutant(rg, ev, w, foreign, k)
			if p, msg, st := guard(func() { n.Party.UpdateFromBytes(wire, from, bc) }); p {
				r.Fail("W2:panic:"+core.TopLibFrame(st), "UpdateFromBytes panicked on a %s mutant (%s) of %s for %s in round %d: %s", target, what, ev.Msg.Key(), n.Name, roundOf(n), msg)
				r.Witness = fmt.Sprintf("mutant: %s\nwire: %x\n\n%s", what, wire, st)
				return
			}
			r.Count("wire_mutants_survived", 1)
			r.AddSet("mutant_kinds", strings.SplitN(what, ":", 2)[0])
		}
		// every sender index from -1 to one past the larger committee, with the genuine bytes and both channel kinds
		for ix := -1; ix <= len(w.Nodes)+1; ix++ {
			for _, bc := range []bool{ev.Bcast, !ev.Bcast} {
				cp := *ev.FromPID
				cp.Index = ix
				if ix == ev.FromPID.Index && bc == ev.Bcast {
					continue // that is the genuine delivery about to happen
				}
				if p, msg, st := guard(func() { n.Party.UpdateFromBytes(ev.Wire, &cp, bc) }); p {
					r.Fail("W2:panic:"+core.TopLibFrame(st), "UpdateFromBytes panicked on the genuine %s of %s handed to %s (round %d) with sender index %d, broadcast=%v: %s", target, ev.Msg.Key(), n.Name, roundOf(n), ix, bc, msg)
					r.Witness = fmt.Sprintf("sender index %d broadcast=%v\nwire: %x\n\n%s", ix, bc, ev.Wire, st)
					return
				}
				r.Count("sender_indices_survived", 1)
			}
		}
	})
	w.Run(sim.StartsThen(sim.FIFO), nil)
	if fired == 0 {
		r.Inconcl("no %s was delivered in this run", target)
		return
	}
	if left := libGoroutinesLeft(); len(left) > 0 {
		r.Fail("goroutine-left:"+core.TopLibFrame(left[0]), "W2 %s/%s: %d library goroutine(s) still alive at quiescence", s.Proto, target, len(left))
		r.Witness = strings.Join(left, "\n\n")
		r.Recycle = true
	}
	r.NonTrivial = true
	r.Sample = map[string]any{"case": "W2/" + s.Proto + "/" + target, "mutants": r.Obs["wire_mutants_survived"], "occasions": fired}
}

func wireMutant(rg interface {
	Intn(int) int
	Read([]byte) (int, error)
}, ev *sim.Event, w *sim.World, foreign []byte, k int) (wire []byte, from *tss.PartyID, bc bool, what string) {
	wire = append([]byte{}, ev.Wire...)
	from, bc = ev.FromPID, ev.Bcast
	pidWithIndex := func(ix int) *tss.PartyID {
		cp := *ev.FromPID
		cp.Index = ix
		return &cp
	}
	switch k % 14 {
	case 0:
		for i := 0; i < 1+rg.Intn(3); i++ {
			wire[rg.Intn(len(wire))] ^= 1 << uint(rg.Intn(8))
		}
		what = "bitflip"
	case 1:
		wire = wire[:rg.Intn(len(wire))]
		what = "truncate"
	case 2:
		junk := make([]byte, 1+rg.Intn(40))
		rg.Read(junk)
		wire = append(wire, junk...)
		what = "junk-appended"
	case 3:
		wire = make([]byte, rg.Intn(200))
		rg.Read(wire)
		what = "random-bytes"
	case 4:
		if foreign != nil {
			if sw, err := sim.TypeURLSwap(wire, foreign); err == nil {
				wire = sw
			}
		}
		what = "foreign-type-url"
	case 5:
		// duplicate every field of the inner message (protobuf: last one wins / lists double)
		if m, err := sim.DecodeWire(wire); err == nil {
			for _, f := range sim.FieldsOfMsg(m) {
				if v, err := sim.GetField(wire, f.Name); err == nil && f.Repeated {
					if enc, err := sim.SetField(wire, f.Name, append(append([][]byte{}, v...), v...)); err == nil {
						wire = enc
					}
				}
			}
		}
		what = "lists-doubled"
	case 6:
		wire = append(wire, 0x7a, 0x03, 1, 2, 3) // unknown field 15, length-delimited, at the Any level
		what = "unknown-field"
	case 7:
		from = pidWithIndex(-1)
		what = "sender-index:-1"
	case 8:
		from = pidWithIndex(len(w.Nodes) + 1)
		what = "sender-index:n+1"
	case 9:
		from = pidWithIndex(rg.Intn(len(w.Nodes) + 1))
		what = "sender-index:other"
	case 10:
		from = ev.Node.PID
		what = "sender=recipient"
	case 11:
		bc = !bc
		what = "flag-flipped"
	case 12:
		wire = nil
		what = "empty"
	case 13:
		// a single field replaced by seeded bytes of a seeded length
		if m, err := sim.DecodeWire(wire); err == nil {
			fs := sim.FieldsOfMsg(m)
			if len(fs) > 0 {
				f := fs[rg.Intn(len(fs))]
				if v, err := sim.GetField(wire, f.Name); err == nil && len(v) > 0 {
					b := make([]byte, rg.Intn(300))
					rg.Read(b)
					v[rg.Intn(len(v))] = b
					if enc, err := sim.SetField(wire, f.Name, v); err == nil {
						wire = enc
					}
				}
			}
		}
		what = "field-random"
	}
	return
}

// ---------------------------------------------------------------- W3: direct calls

type w3Fn func(r *core.Result, g *catGen)

// catGen draws catalogue values.
type catGen struct {
	rg interface {
		Intn(int) int
		Read([]byte) (int, error)
	}
	N, NT, h1, h2 *big.Int
	ntFactor      *big.Int // a prime factor of NT (known to the verifier only; used for robustness inputs)
	curve         string
}

func (g *catGen) Int() *big.Int {
	q := orderOf(g.curve)
	pow := func(k uint) *big.Int { return new(big.Int).Lsh(big1, k) }
	N := g.N
	c := []*big.Int{big.NewInt(0), big.NewInt(1), big.NewInt(2), new(big.Int).Sub(q, big1), new(big.Int).Set(q), new(big.Int).Add(q, big1), new(big.Int).Lsh(q, 1),
		new(big.Int).Sub(N, big1), new(big.Int).Set(N), new(big.Int).Add(N, big1), new(big.Int).Mul(N, N), new(big.Int).Add(new(big.Int).Mul(N, N), big1),
		pow(255), pow(256), pow(2047), pow(2048), pow(4096), new(big.Int).Sub(pow(6000), big1), new(big.Int).Set(g.NT), new(big.Int).Set(g.h1), new(big.Int).Set(g.h2),
		new(big.Int).Mul(q, new(big.Int).Exp(q, big2, nil)), new(big.Int).Set(ref.SecpP), new(big.Int).Set(ref.EdP), big.NewInt(3), big.NewInt(4), pow(63), pow(64)}
	k := g.rg.Intn(len(c) + 4)
	if k < len(c) {
		return c[k]
	}
	b := make([]byte, 1+g.rg.Intn(300))
	g.rg.Read(b)
	return new(big.Int).SetBytes(b)
}

func (g *catGen) Bytes() []byte {
	switch g.rg.Intn(6) {
	case 0:
		return []byte{}
	case 1:
		return []byte{0}
	}
	return g.Int().Bytes()
}

func (g *catGen) List(n int) [][]byte {
	out := make([][]byte, n)
	for i := range out {
		out[i] = g.Bytes()
		if len(out[i]) == 0 && g.rg.Intn(3) > 0 {
			out[i] = []byte{1}
		}
	}
	return out
}

func (g *catGen) Point(ec string) *crypto.ECPoint {
	c := ecOf(ec)
	switch g.rg.Intn(5) {
	case 0: // valid
		return crypto.ScalarBaseMult(c, big.NewInt(int64(1+g.rg.Intn(1000))))
	case 1: // off-curve coordinates inside an ECPoint (a caller can build one with the NoCurveCheck constructor)
		return crypto.NewECPointNoCurveCheck(c, g.Int(), g.Int())
	case 2:
		if ec == "ed25519" {
			t := ref.EdTorsion()[g.rg.Intn(8)]
			return crypto.NewECPointNoCurveCheck(c, t.X, t.Y)
		}
		return crypto.NewECPointNoCurveCheck(c, big.NewInt(0), big.NewInt(0))
	case 3: // a point of the other curve
		if ec == "ed25519" {
			return crypto.ScalarBaseMult(tss.S256(), big.NewInt(5))
		}
		return crypto.ScalarBaseMult(tss.Edwards(), big.NewInt(5))
	}
	k := new(big.Int).Mod(g.Int(), c.Params().N)
	if k.Sign() == 0 {
		k.SetInt64(11) // k*G would be the identity, which an ECPoint cannot hold: not an input, skip
	}
	return crypto.ScalarBaseMult(c, k)
}

func (g *catGen) Sess() []byte {
	b := make([]byte, g.rg.Intn(70))
	g.rg.Read(b)
	return b
}

var w3Table = map[string]w3Fn{
	"schnorr.ZKProof.Verify": func(r *core.Result, g *catGen) {
		for _, c := range []string{"secp256k1", "ed25519"} {
			(&schnorr.ZKProof{Alpha: g.Point(c), T: g.Int()}).Verify(g.Sess(), g.Point(c))
		}
	},
	"schnorr.ZKVProof.Verify": func(r *core.Result, g *catGen) {
		for _, c := range []string{"secp256k1", "ed25519"} {
			(&schnorr.ZKVProof{Alpha: g.Point(c), T: g.Int(), U: g.Int()}).Verify(g.Sess(), g.Point(c), g.Point(c))
		}
	},
	"vss.Share.Verify": func(r *core.Result, g *catGen) {
		for _, c := range []string{"secp256k1", "ed25519"} {
			t := 1 + g.rg.Intn(3)
			vs := make(vss.Vs, t+1+g.rg.Intn(2)-g.rg.Intn(2))
			for i := range vs {
				vs[i] = g.Point(c)
			}
			(&vss.Share{Threshold: t, ID: g.Int(), Share: g.Int()}).Verify(ecOf(c), t, vs)
		}
	},
	"modproof.Verify+FromBytes": func(r *core.Result, g *catGen) {
		n := []int{0, 1, 162, 163, 164}[g.rg.Intn(5)]
		if pf, err := modproof.NewProofFromBytes(g.List(n)); err == nil {
			pf.Verify(g.Sess(), g.Int())
		}
		pf := &modproof.ProofMod{W: g.Int(), A: g.Int(), B: g.Int()}
		for i := range pf.X {
			pf.X[i], pf.Z[i] = g.Int(), g.Int()
		}
		if g.rg.Intn(2) == 0 { // bit lengths the verifier demands, so that the body is reached
			pf.A = new(big.Int).SetBit(new(big.Int).Rsh(g.Int(), 0), 80, 1)
			pf.A.SetBit(pf.A, 81, 0)
			pf.A = new(big.Int).Or(new(big.Int).Lsh(big1, 80), big.NewInt(int64(g.rg.Intn(1<<20))))
			pf.B = new(big.Int).Or(new(big.Int).Lsh(big1, 80), big.NewInt(int64(g.rg.Intn(1<<20))))
		}
		pf.Verify(g.Sess(), g.Int())
	},
	"facproof.Verify+FromBytes": func(r *core.Result, g *catGen) {
		n := []int{0, 1, 10, 11, 12}[g.rg.Intn(5)]
		if pf, err := facproof.NewProofFromBytes(g.List(n)); err == nil {
			pf.Verify(g.Sess(), tss.S256(), g.Int(), g.Int(), g.Int(), g.Int())
		}
	},
	"dlnproof.Verify+Unmarshal": func(r *core.Result, g *catGen) {
		n := []int{0, 1, 2, 257, 258, 259}[g.rg.Intn(6)]
		l := g.List(n)
		if n == 258 && g.rg.Intn(2) == 0 {
			l[0], l[129] = big.NewInt(128).Bytes(), big.NewInt(128).Bytes()
		}
		if pf, err := dlnproof.UnmarshalDLNProof(l); err == nil {
			pf.Verify(g.Int(), g.Int(), g.Int())
		}
		pf := &dlnproof.Proof{}
		for i := range pf.Alpha {
			pf.Alpha[i], pf.T[i] = g.Int(), g.Int()
		}
		pf.Verify(g.Int(), g.Int(), g.Int())
	},
	"mta.RangeProofAlice.Verify+FromBytes": func(r *core.Result, g *catGen) {
		n := []int{0, 5, 6, 7}[g.rg.Intn(4)]
		if pf, err := mta.RangeProofAliceFromBytes(g.List(n)); err == nil {
			pf.Verify(tss.S256(), &paillier.PublicKey{N: g.Int()}, g.Int(), g.Int(), g.Int(), g.Int())
		}
	},
	// a prover that fixes z / u / w to a degenerate value before the challenge and answers honestly: the equations that
	// do not involve the forced value hold, so the verifier gets as far as using it (inverse of a non-unit, exponent of 0)
	"mta.RangeProofAlice.Verify/forced-first-move": func(r *core.Result, g *catGen) {
		pk := &paillier.PublicKey{N: g.N}
		m := big.NewInt(int64(1 + g.rg.Intn(1000)))
		c, rr, err := pk.EncryptAndReturnRandomness(rand.Reader, m)
		if err != nil {
			return
		}
		q3 := new(big.Int).Exp(secQ, big.NewInt(3), nil)
		alpha := new(big.Int).Rsh(q3, 1)
		which := []string{"z", "u", "w"}[g.rg.Intn(3)]
		mod := g.NT
		if which == "u" {
			mod = pk.NSquare()
		}
		vals := []*big.Int{big.NewInt(0), new(big.Int).Set(mod), new(big.Int).Lsh(mod, 1), big.NewInt(1), new(big.Int).Sub(mod, big1), new(big.Int).Set(g.N), new(big.Int).Neg(big1)}
		if g.ntFactor != nil {
			vals = append(vals, new(big.Int).Set(g.ntFactor), new(big.Int).Mul(g.ntFactor, big.NewInt(12345)))
		}
		v := vals[g.rg.Intn(len(vals))]
		pf := aliceTranscriptForced(tss.S256(), pk, c, g.NT, g.h1, g.h2, m, rr, alpha, map[string]*big.Int{which: v})
		ok := pf.Verify(tss.S256(), pk, g.NT, g.h1, g.h2, c)
		if ok {
			r.Fail("W3:accepted:mta.RangeProofAlice.Verify:forced-"+which, "a range proof with %s forced to %s was accepted", which, v)
		}
		r.Count("forced_first_move_proofs", 1)
	},
	"mta.ProofBob.Verify+FromBytes": func(r *core.Result, g *catGen) {
		n := []int{0, 9, 10, 11, 12, 13}[g.rg.Intn(6)]
		if pf, err := mta.ProofBobFromBytes(g.List(n)); err == nil {
			pf.Verify(g.Sess(), tss.S256(), &paillier.PublicKey{N: g.Int()}, g.Int(), g.Int(), g.Int(), g.Int(), g.Int())
		}
	},
	"mta.ProofBobWC.Verify+FromBytes": func(r *core.Result, g *catGen) {
		n := []int{0, 9, 10, 11, 12, 13}[g.rg.Intn(6)]
		l := g.List(n)
		if n >= 12 && g.rg.Intn(2) == 0 {
			p := crypto.ScalarBaseMult(tss.S256(), big.NewInt(9))
			l[10], l[11] = p.X().Bytes(), p.Y().Bytes()
		}
		if pf, err := mta.ProofBobWCFromBytes(tss.S256(), l); err == nil {
			pf.Verify(g.Sess(), tss.S256(), &paillier.PublicKey{N: g.Int()}, g.Int(), g.Int(), g.Int(), g.Int(), g.Int(), g.Point("secp256k1"))
		}
	},
	"commitments.Verify+DeCommit+ParseSecrets": func(r *core.Result, g *catGen) {
		n := g.rg.Intn(5)
		D := make([]*big.Int, n)
		for i := range D {
			D[i] = g.Int()
		}
		c := &cmt.HashCommitDecommit{C: g.Int(), D: D}
		if g.rg.Intn(2) == 0 && n > 0 {
			c.C = common.SHA512_256i(D...) // make it open
		}
		c.Verify()
		c.DeCommit()
		cmt.ParseSecrets(D)
		cmt.NewHashDeCommitmentFromBytes(g.List(n))
	},
	"ecpoint.doors": func(r *core.Result, g *catGen) {
		for _, c := range []string{"secp256k1", "ed25519"} {
			crypto.NewECPoint(ecOf(c), g.Int(), g.Int())
			n := g.rg.Intn(6)
			in := make([]*big.Int, n)
			for i := range in {
				in[i] = g.Int()
			}
			crypto.UnFlattenECPoints(ecOf(c), in)
			p := g.Point(c)
			p.ValidateBasic()
			p.IsOnCurve()
		}
	},
	"ckd.decoders": func(r *core.Result, g *catGen) {
		b := g.Bytes()
		ckd.NewExtendedKeyFromString(ref.B58Encode(b), tss.S256())
		ckd.NewExtendedKeyFromString(string(b), tss.S256())
		raw := make([]byte, 82)
		g.rg.Read(raw)
		ckd.NewExtendedKeyFromString(ref.B58Encode(raw), tss.S256())
	},
	"tss.ParseWireMessage": func(r *core.Result, g *catGen) {
		b := make([]byte, g.rg.Intn(400))
		g.rg.Read(b)
		pid := tss.NewPartyID("x", "x", big.NewInt(5))
		pid.Index = 0
		tss.ParseWireMessage(b, pid, g.rg.Intn(2) == 0)
	},
	"paillier.ops": func(r *core.Result, g *catGen) {
		pk := &paillier.PublicKey{N: g.N}
		pk.Encrypt(rand.Reader, g.Int())
		pk.HomoMult(g.Int(), g.Int())
		pk.HomoAdd(g.Int(), g.Int())
	},
}

func w3Names() []string {
	var out []string
	for _, m := range paillierProofModuli {
		out = append(out, "paillier.Proof.Verify/"+m)
	}
	for k := range w3Table {
		out = append(out, k)
	}
	sortStrings(out)
	return out
}

func sortStrings(s []string) {
	for i := 1; i < len(s); i++ {
		for j := i; j > 0 && s[j] < s[j-1]; j-- {
			s[j], s[j-1] = s[j-1], s[j]
		}
	}
}

func c06Direct(r *core.Result, fn string, n int, env *core.Env) {
	pp, err := PreParams(env.Repo)
	if err != nil {
		r.Inconcl("fixtures: %v", err)
		return
	}
	g := &catGen{rg: rng(env.Seed, "w3"+fn), N: pp[0].PaillierSK.N, NT: pp[1].NTildei, h1: pp[1].H1i, h2: pp[1].H2i, curve: "secp256k1"}
	g.ntFactor = new(big.Int).Add(new(big.Int).Lsh(pp[1].P, 1), big1) // NTilde = (2p+1)(2q+1)
	if strings.HasPrefix(fn, "paillier.Proof.Verify/") {
		c06PaillierProof(r, g, strings.TrimPrefix(fn, "paillier.Proof.Verify/"))
		return
	}
	f := w3Table[fn]
	for i := 0; i < n; i++ {
		if p, msg, st := guard(func() { f(r, g) }); p {
			r.Fail("W3:panic:"+fn+":"+core.TopLibFrame(st), "%s panicked on catalogue arguments (call %d): %s", fn, i, msg)
			r.Witness = st
			return
		}
		r.Count("direct_calls_survived", 1)
	}
	r.NonTrivial = true
	r.Sample = map[string]any{"case": "W3/" + fn, "calls": n}
}

// c06PaillierProof: the exported verifier must return for every modulus; a modulus of the wrong size makes the
// challenge generator reject every candidate, so each call gets a generous allowance and its own verdict.
func c06PaillierProof(r *core.Result, g *catGen, which string) {
	pub := crypto.ScalarBaseMult(tss.S256(), big.NewInt(3))
	try := func(what string, N *big.Int) bool {
		var pf paillier.Proof
		for i := range pf {
			pf[i] = g.Int()
		}
		done := make(chan string, 1)
		go func() {
			defer func() {
				if e := recover(); e != nil {
					done <- fmt.Sprint("panic: ", e)
				}
			}()
			pf.Verify(N, big.NewInt(7), pub)
			done <- ""
		}()
		select {
		case msg := <-done:
			if msg != "" {
				r.Fail("W3:panic:paillier.Proof.Verify:"+what, "paillier.Proof.Verify panicked for N = %s: %s", what, msg)
				return false
			}
			r.Count("direct_calls_survived", 1)
			// Verify may come back through its small-prime shortcut while the challenge generator it started keeps running
			time.Sleep(300 * time.Millisecond)
			if left := goroutinesWith(allStacks(), "paillier.GenerateXs"); len(left) > 0 {
				time.Sleep(3 * time.Second)
				if left = goroutinesWith(allStacks(), "paillier.GenerateXs"); len(left) > 0 {
					class := "bitlen%256!=0"
					if N.BitLen()%256 == 0 {
						class = "bitlen%256==0"
					}
					r.Recycle = true
					r.Fail("W3:goroutine-left:paillier.Proof.Verify:"+class, "paillier.Proof.Verify returned for N = %s (%d bits) but the GenerateXs goroutine it started is still running 3 s later", what, N.BitLen())
					r.Witness = strings.Join(left, "\n\n")
					return false
				}
			}
			return true
		case <-time.After(30 * time.Second):
			r.Recycle = true
			st := ""
			for _, gr := range goroutinesWith(allStacks(), "paillier.GenerateXs") {
				st = gr
			}
			class := "bitlen%256!=0"
			if N.BitLen()%256 == 0 {
				class = "bitlen%256==0"
			}
			r.Fail("W3:no-return:paillier.Proof.Verify:"+class, "paillier.Proof.Verify does not return for N = %s (%d bits; 30 s, a 2048-bit modulus takes ~20 ms): GenerateXs keeps drawing ceil(bits/256)*256-bit candidates that are never below N", what, N.BitLen())
			r.Witness = st
			return false
		}
	}
	mods := map[string]*big.Int{
		"2048-bit vendored": g.N, "1": big.NewInt(1), "2": big.NewInt(2), "3": big.NewInt(3), "255": big.NewInt(255), "2^64+13": new(big.Int).Add(new(big.Int).Lsh(big1, 64), big.NewInt(13)),
		"2^255+1": new(big.Int).Add(new(big.Int).Lsh(big1, 255), big1), "2^256-1": new(big.Int).Sub(new(big.Int).Lsh(big1, 256), big1),
		"2^256+1 (257 bits)": new(big.Int).Add(new(big.Int).Lsh(big1, 256), big1), "2^1800+1": new(big.Int).Add(new(big.Int).Lsh(big1, 1800), big1), "2^2047+1": new(big.Int).Add(new(big.Int).Lsh(big1, 2047), big1),
	}
	if N, ok := mods[which]; ok {
		try(which, N)
	}
	r.NonTrivial = true
}

var paillierProofModuli = []string{"2048-bit vendored", "1", "2", "3", "255", "2^64+13", "2^255+1", "2^256-1", "2^256+1 (257 bits)", "2^1800+1", "2^2047+1"}
