package checks

import (
	"fmt"
	"math/big"
	"sort"
	"strings"

	"github.com/bnb-chain/tss-lib/v2/tss"

	"verif/core"
	"verif/ref"
	"verif/sim"
)

// C07 — outcome independent of delivery order; no deadlock; one result.
// C08 — rounds, routing, channel discipline; WaitingFor exact.

func init() {
	core.Register(&core.Check{
		ID:    "C07",
		Level: "exploration",
		Rule: "exhaustive enumeration (depth-first, re-execution from scratch, visited set = vector of per-party inbox sequences incl. the Start marker) of EdDSA keygen n=2 and EdDSA signing with 2 signers; capped enumeration (quick 300 / thorough 5000 states) of EdDSA keygen n=3 and EdDSA resharing 2->2; " +
			"directed strategies {LIFO, starve each party, future-first, duplicate-everything, pre-Start delivery to each party / to all} and seeded-random schedules (quick 4 / thorough 40) for all six protocols incl. ECDSA n in {3,5}. " +
			"Oracle per run: no honest error, every party finishes exactly once, no party left waiting when all messages are delivered, per-party message set and routing equal to the protocol table, result passes the C01-C04 oracle. Class = (protocol, configuration, strategy); non-trivial when a run reached quiescence and its outcome was checked.",
		Assumptions: []string{"a party's state is a function of its inbox sequence (deliveries to different parties commute), which is what makes the visited set sound"},
		Gen:         c07Gen,
		Run:         c07Run,
		MinEvents:   []string{"outcomes_checked", "states_explored", "sends_checked"},
	})
	core.Register(&core.Check{
		ID:    "C08",
		Level: "exploration",
		Rule: "online monitor on simulated sessions of all six protocols under FIFO/LIFO/random/future-first schedules, evaluated on every send and after every single delivery: prescribed message types once per recipient, no round-(r+1) send before everything round r requires was delivered, secret-bearing types p2p to exactly one peer and never flagged broadcast, " +
			"broadcast types to exactly the right committee with the right flags, wire round trip proto-equal, WaitingFor() == peers with an undelivered required message; plus, for every message type of every protocol, a run in which a copy with the broadcast flag inverted is delivered first (must not advance the round, sender still awaited, nothing sent), and a scan of all outgoing bytes for the sender's long-term secrets. " +
			"Class = (protocol, configuration, scheduler | flipped type); non-trivial when >=1 delivery was monitored.",
		Gen:       c08Gen,
		Run:       c08Run,
		MinEvents: []string{"waitingfor_checked", "sends_checked", "wire_roundtrips", "flag_flips_checked", "leak_scans"},
	})
}

type sessCfg struct {
	proto  string
	n, t   int
	sel    []int
	nn, nt int
	key    string
	cost   float64
}

func (c sessCfg) P() core.P {
	return core.P{"proto": c.proto, "n": c.n, "t": c.t, "sel": c.sel, "nn": c.nn, "nt": c.nt, "key": c.key}
}

func (c sessCfg) name() string {
	return fmt.Sprintf("%s/n%d-t%d/sel%v/new%d-%d/%s", c.proto, c.n, c.t, c.sel, c.nn, c.nt, c.key)
}

func sessionCatalogue(tier string) []sessCfg {
	cs := []sessCfg{
		{"eddsa-keygen", 3, 1, nil, 0, 0, "small", 0.5},
		{"eddsa-keygen", 4, 2, nil, 0, 0, "seeded", 0.8},
		{"eddsa-signing", 3, 1, []int{0, 2}, 0, 0, "seeded", 0.3},
		{"eddsa-signing", 4, 2, []int{0, 1, 2, 3}, 0, 0, "seeded", 0.6},
		{"eddsa-resharing", 3, 1, []int{0, 1}, 3, 1, "seeded", 0.6},
		{"eddsa-resharing", 4, 2, []int{0, 1, 3}, 2, 1, "seeded", 0.6},
		{"ecdsa-keygen", 3, 1, nil, 0, 0, "small", 7},
		{"ecdsa-signing", 5, 2, []int{0, 2, 4}, 0, 0, "vendored", 1},
		{"ecdsa-signing", 5, 2, []int{0, 1, 2, 3}, 0, 0, "vendored", 2},
		{"ecdsa-resharing", 5, 2, []int{0, 1, 3}, 3, 1, "vendored", 8},
		// the smallest committees: every "everybody else" address list has exactly one entry
		{"ecdsa-resharing", 3, 1, []int{0, 2}, 2, 1, "seeded", 6},
		// a shrinking committee: more participating old members than new ones (indices of old senders exceed the new size)
		{"ecdsa-resharing", 5, 2, []int{0, 1, 3, 4}, 2, 1, "vendored", 7},
	}
	if tier == "thorough" {
		cs = append(cs,
			sessCfg{"ecdsa-keygen", 5, 2, nil, 0, 0, "seeded", 14},
			sessCfg{"ecdsa-keygen", 2, 1, nil, 0, 0, "nearq", 5},
			sessCfg{"ecdsa-signing", 5, 2, []int{0, 1, 2, 3, 4}, 0, 0, "vendored", 3},
			sessCfg{"ecdsa-resharing", 5, 2, []int{0, 1, 2, 4}, 4, 2, "vendored", 12},
			sessCfg{"eddsa-keygen", 6, 3, nil, 0, 0, "large", 2},
			sessCfg{"eddsa-signing", 5, 2, []int{1, 2, 4}, 0, 0, "seeded", 0.5},
			sessCfg{"eddsa-resharing", 5, 2, []int{0, 1, 2, 4}, 5, 3, "seeded", 1.5},
		)
	}
	return cs
}

func c07Gen(tier string, seed int64) []core.Case {
	var cs []core.Case
	nrand := tierN(tier, 4, 40)
	for _, sc := range sessionCatalogue(tier) {
		strategies := []string{"lifo", "future", "dup", "starve0", "starve-last", "prestart-all", "prestart-0", "prestart-last"}
		for i := 0; i < nrand; i++ {
			strategies = append(strategies, fmt.Sprintf("random-%d", i))
		}
		if strings.HasPrefix(sc.proto, "ecdsa") && tier != "thorough" {
			// ECDSA runs are expensive: a rotating subset in quick
			strategies = []string{"lifo", "dup", "prestart-all", "random-0", "future"}
			if sc.proto == "ecdsa-keygen" {
				strategies = []string{"lifo", "prestart-all", "random-0"}
			}
		}
		for _, st := range strategies {
			p := sc.P()
			p["strategy"] = st
			id := sc.name() + "/" + st
			cost := sc.cost
			if st == "dup" {
				cost *= 2
			}
			cs = append(cs, core.Case{ID: id, Class: id, Kind: "directed", P: p, Cost: cost})
		}
	}
	cap := tierN(tier, 300, 5000)
	ex := []struct {
		sc  sessCfg
		cap int
	}{
		{sessCfg{"eddsa-keygen", 2, 1, nil, 0, 0, "small", 0}, 0},
		{sessCfg{"eddsa-signing", 2, 1, []int{0, 1}, 0, 0, "small", 0}, 0},
		{sessCfg{"eddsa-keygen", 3, 1, nil, 0, 0, "small", 0}, cap},
		{sessCfg{"eddsa-resharing", 2, 1, []int{0, 1}, 2, 1, "small", 0}, cap},
		{sessCfg{"eddsa-signing", 3, 1, []int{0, 1, 2}, 0, 0, "small", 0}, cap},
	}
	for _, e := range ex {
		p := e.sc.P()
		p["cap"] = e.cap
		id := "exhaustive/" + e.sc.name()
		cs = append(cs, core.Case{ID: id, Class: id, Kind: "exhaustive", P: p, Cost: 40})
	}
	return cs
}

func strategyOf(name string, w *sim.World) sim.Scheduler {
	switch {
	case name == "prestart-all":
		v := map[int]bool{}
		for i := range w.Nodes {
			v[i] = true
		}
		return sim.PreStart(v)
	case name == "prestart-0":
		return sim.PreStart(map[int]bool{0: true})
	case name == "prestart-last":
		return sim.PreStart(map[int]bool{len(w.Nodes) - 1: true})
	case strings.HasPrefix(name, "random-"):
		return sim.Random // Start events are scheduled at random too
	}
	return schedByName(name, w)
}

func c07Run(c core.Case, env *core.Env) core.Result {
	r := res(c)
	s, err := sessionFromP(env, c.P)
	if err != nil {
		r.Inconcl("session setup failed: %v", err)
		return r
	}
	if c.Kind == "exhaustive" {
		c07Exhaustive(&r, s, c.P.Int("cap"), env)
		return r
	}
	st := c.P.Str("strategy")
	w, in, err := s.make(env.Seed + int64(len(c.ID)) + int64(strings.Count(st, "")))
	if err != nil {
		r.Inconcl("cannot build: %v", err)
		return r
	}
	if strings.HasPrefix(st, "random-") {
		var k int64
		fmt.Sscanf(st, "random-%d", &k)
		w.Rng.Seed(env.Seed*1000 + k)
	}
	mon := attachRoundMon(w, &core.Result{}) // routing/count monitor; WaitingFor exactness is C08's business
	mon.skipWaiting = true
	w.Run(strategyOf(st, w), nil)
	noteRun(&r, w)
	r.Count("states_explored", int64(len(w.Steps)))
	pre := 0
	for _, n := range w.Nodes {
		for i, e := range n.Inbox {
			if e == "S" {
				pre += i
				break
			}
		}
	}
	r.Count("deliveries_before_own_start", int64(pre))
	mon.finish()
	// only the routing / count findings of the monitor belong to this property
	if mon.r.Verdict == core.Violated && (strings.HasPrefix(mon.r.Sig, "route:") || strings.HasPrefix(mon.r.Sig, "round:")) {
		r.Fail("c07:"+mon.r.Sig, "under strategy %s: %s", st, mon.r.Msg)
	}
	r.Count("sends_checked", mon.r.Obs["sends_checked"])
	s.outcome(&r, w, in, "c07:"+strategyClass(st))
	r.NonTrivial = r.Obs["outcomes_checked"] > 0
	if r.Verdict == core.Violated {
		r.Witness = strings.Join(w.Trace(400), "\n")
	}
	if st == "future" {
		r.Sample = map[string]any{"case": c.ID, "steps": len(w.Steps), "schedule_hash": w.InboxHash(), "first_events": w.Trace(12)}
	}
	return r
}

func strategyClass(st string) string {
	if strings.HasPrefix(st, "random-") {
		return "random"
	}
	if strings.HasPrefix(st, "prestart") {
		return "prestart"
	}
	return st
}

// c07Exhaustive enumerates every distinct vector of per-party inbox sequences.
func c07Exhaustive(r *core.Result, s *session, cap int, env *core.Env) {
	visited := map[string]bool{}
	terminals := 0
	truncated := false
	var stuckExample []string
	var dfs func(path []string)
	dfs = func(path []string) {
		if r.Verdict == core.Violated && r.Obs["violating_states"] > 3 {
			return
		}
		if cap > 0 && len(visited) >= cap {
			truncated = true
			return
		}
		w, in, err := s.make(env.Seed)
		if err != nil {
			r.Inconcl("cannot build: %v", err)
			return
		}
		mon := attachRoundMon(w, &core.Result{})
		mon.skipWaiting = true
		for _, key := range path {
			idx := -1
			for i, e := range w.Pending {
				if e.String() == key {
					idx = i
					break
				}
			}
			if idx < 0 {
				r.Inconcl("replay diverged at %s", key)
				return
			}
			w.Exec(idx)
		}
		h := w.InboxHash()
		if visited[h] {
			return
		}
		visited[h] = true
		r.Count("states_explored", 1)
		r.Count("sends_checked", mon.r.Obs["sends_checked"])
		if mon.r.Verdict == core.Violated && (strings.HasPrefix(mon.r.Sig, "route:") || strings.HasPrefix(mon.r.Sig, "round:")) {
			r.Fail("c07:"+mon.r.Sig, "schedule %v: %s", path, mon.r.Msg)
			r.Count("violating_states", 1)
		}
		if errs := errorsOf(w); len(errs) > 0 {
			r.Fail("c07:exhaustive:error:"+s.Proto, "schedule %v: honest error %s", path, core.Clip(strings.Join(errs, " | "), 300))
			r.Count("violating_states", 1)
			return
		}
		if len(w.Pending) == 0 {
			terminals++
			before := r.Verdict
			mon.finish()
			s.outcome(r, w, in, "c07:exhaustive")
			if r.Verdict == core.Violated && before != core.Violated {
				stuckExample = append([]string{}, path...)
				r.Witness = "schedule:\n" + strings.Join(path, "\n") + "\n\ntrace:\n" + strings.Join(w.Trace(200), "\n")
			}
			if r.Verdict == core.Violated {
				r.Count("violating_states", 1)
			}
			return
		}
		keys := map[string]bool{}
		for _, e := range w.Pending {
			keys[e.String()] = true
		}
		var ks []string
		for k := range keys {
			ks = append(ks, k)
		}
		sort.Strings(ks)
		for _, k := range ks {
			dfs(append(append([]string{}, path...), k))
		}
	}
	dfs(nil)
	r.Count("terminal_states", int64(terminals))
	if !truncated && r.Verdict != core.Inconclusive {
		r.Count("exhaustive_spaces", 1)
	}
	r.NonTrivial = terminals > 0
	r.Sample = map[string]any{"case": "exhaustive " + s.desc(), "distinct_inbox_vectors": len(visited), "terminal_states": terminals, "complete": !truncated, "stuck_example": stuckExample}
}

// ---------------------------------------------------------------- C08

func c08Gen(tier string, seed int64) []core.Case {
	var cs []core.Case
	for _, sc := range sessionCatalogue(tier) {
		scheds := []string{"fifo", "lifo", "random", "future"}
		if strings.HasPrefix(sc.proto, "ecdsa") && tier != "thorough" {
			scheds = []string{"fifo", "random"}
			if sc.proto == "ecdsa-keygen" {
				scheds = []string{"random"}
			}
		}
		if !strings.HasPrefix(sc.proto, "ecdsa-keygen") && !strings.HasPrefix(sc.proto, "ecdsa-resharing") || tier == "thorough" {
			// the last party is started only when nothing else can happen: it holds messages before its own Start
			scheds = append(scheds, "prestart-last")
		}
		for _, sch := range scheds {
			p := sc.P()
			p["sched"] = sch
			id := "monitor/" + sc.name() + "/" + sch
			cs = append(cs, core.Case{ID: id, Class: id, Kind: "monitor", P: p, Cost: sc.cost})
		}
	}
	// flag flips: one run per message type per protocol on the cheapest configuration of that protocol
	flipCfg := map[string]sessCfg{
		"eddsa-keygen": {"eddsa-keygen", 3, 1, nil, 0, 0, "small", 0.5}, "eddsa-signing": {"eddsa-signing", 3, 1, []int{0, 1}, 0, 0, "seeded", 0.3},
		"eddsa-resharing": {"eddsa-resharing", 3, 1, []int{0, 1}, 2, 1, "seeded", 0.6},
		"ecdsa-keygen":    {"ecdsa-keygen", 2, 1, nil, 0, 0, "small", 5}, "ecdsa-signing": {"ecdsa-signing", 5, 2, []int{0, 1, 2}, 0, 0, "vendored", 1},
		"ecdsa-resharing": {"ecdsa-resharing", 5, 2, []int{0, 1, 2}, 2, 1, "vendored", 6},
	}
	protos := make([]string, 0, len(flipCfg))
	for p := range flipCfg {
		protos = append(protos, p)
	}
	sort.Strings(protos)
	for _, proto := range protos {
		for _, sp := range sim.Specs[proto] {
			p := flipCfg[proto].P()
			p["flip"] = sp.Short
			id := "flagflip/" + proto + "/" + sp.Short
			cs = append(cs, core.Case{ID: id, Class: id, Kind: "flip", P: p, Cost: flipCfg[proto].cost})
			// second variant: the wrong-channel copy is the only copy there is until the run is quiescent
			ph := flipCfg[proto].P()
			ph["flip"], ph["hold"] = sp.Short, true
			idh := "flagflip-only/" + proto + "/" + sp.Short
			cs = append(cs, core.Case{ID: idh, Class: idh, Kind: "flip", P: ph, Cost: flipCfg[proto].cost})
			// fourth variant: as the second, but only for the messages of the sender with index 0; everybody else's traffic
			// flows normally, so the round monitor's WaitingFor check (after every delivery) sees the other senders complete
			// their part of the round while a wrong-channel message sits in the store
			po := flipCfg[proto].P()
			po["flip"], po["hold"], po["one"] = sp.Short, true, true
			ido := "flagflip-one/" + proto + "/" + sp.Short
			cs = append(cs, core.Case{ID: ido, Class: ido, Kind: "flip", P: po, Cost: flipCfg[proto].cost})
			// third variant: the genuine copy first, the wrong-channel copy directly after it (a duplicate that took the other path)
			ca := flipCfg[proto]
			switch proto { // with a single peer every delivery closes the round
			case "ecdsa-keygen":
				ca = sessCfg{"ecdsa-keygen", 3, 1, nil, 0, 0, "small", 8}
			case "eddsa-signing":
				ca = sessCfg{"eddsa-signing", 3, 1, []int{0, 1, 2}, 0, 0, "seeded", 0.4}
			case "ecdsa-resharing":
				ca = sessCfg{"ecdsa-resharing", 5, 2, []int{0, 1, 2}, 3, 1, "vendored", 9}
			case "eddsa-resharing":
				ca = sessCfg{"eddsa-resharing", 3, 1, []int{0, 1}, 3, 1, "seeded", 0.8}
			}
			pa := ca.P()
			pa["flip"], pa["after"] = sp.Short, true
			ida := "flagflip-after/" + proto + "/" + sp.Short
			cs = append(cs, core.Case{ID: ida, Class: ida, Kind: "flip", P: pa, Cost: ca.cost})
		}
	}
	return cs
}

// secretsOf collects the long-term secrets of every node of a session (as far as the harness knows them).
func secretsOf(s *session, w *sim.World, in keyset, final bool) map[string]map[string]*big.Int {
	out := map[string]map[string]*big.Int{}
	add := func(node string, v *keyView, withShare bool) {
		m := out[node]
		if m == nil {
			m = map[string]*big.Int{}
			out[node] = m
		}
		if withShare && v.Xi != nil && v.Xi.Sign() > 0 {
			m["Xi"] = new(big.Int).Set(v.Xi)
		}
		if v.SK != nil {
			m["Paillier.P"], m["Paillier.Q"], m["Paillier.LambdaN"], m["Paillier.PhiN"] = v.SK.P, v.SK.Q, v.SK.LambdaN, v.SK.PhiN
		}
		m["pre.P"], m["pre.Q"], m["pre.Alpha"], m["pre.Beta"] = v.PreP, v.PreQ, v.Alpha, v.Beta
	}
	q := orderOf(s.curve())
	if in != nil {
		views := in.Views()
		ids := make([]*big.Int, len(views))
		for i, v := range views {
			ids[i] = new(big.Int).Mod(v.ShareID, q)
		}
		for _, n := range w.Nodes {
			if n.Group == "new" {
				continue
			}
			for i, v := range views {
				if v.ShareID.Cmp(n.PID.KeyInt()) == 0 {
					add(n.Name, v, true)
					if v.Xi != nil && v.Xi.Sign() > 0 {
						wi := ref.LagrangeAt(ids, i, big0, q)
						wi.Mul(wi, v.Xi).Mod(wi, q)
						out[n.Name]["w_i (Lagrange-weighted share)"] = wi
					}
				}
			}
		}
	}
	if final {
		for _, n := range w.Nodes {
			if len(n.Ended) == 0 || in != nil && n.Group != "new" {
				continue
			}
			views, _ := viewsOf(&sim.World{Nodes: []*sim.Node{n}}, "")
			if len(views) == 1 {
				add(n.Name, views[0], true)
			}
		}
	}
	return out
}

func c08Run(c core.Case, env *core.Env) core.Result {
	r := res(c)
	s, err := sessionFromP(env, c.P)
	if err != nil {
		r.Inconcl("session setup failed: %v", err)
		return r
	}
	w, in, err := s.make(env.Seed + int64(len(c.ID)))
	if err != nil {
		r.Inconcl("cannot build: %v", err)
		return r
	}
	var preSecrets map[string]map[string]*big.Int
	if in != nil {
		preSecrets = secretsOf(s, w, in.Copy(), false) // old shares are erased during resharing: take them now
	}
	mon := attachRoundMon(w, &r)
	sched := sim.StartsThen(schedByName(c.P.Str("sched"), w))
	if c.P.Str("sched") == "prestart-last" {
		sched = sim.Starve(len(w.Nodes)-1, sim.FIFO)
	}
	var release func()
	if c.Kind == "flip" {
		if c.P.Bool("hold") {
			release = c08FlipOnly(&r, w, c.P.Str("flip"), c.P.Bool("one"))
		} else if c.P.Bool("after") {
			c08FlipAfter(&r, w, c.P.Str("flip"))
		} else {
			c08Flip(&r, w, c.P.Str("flip"))
		}
		sched = sim.StartsThen(sim.FIFO)
	}
	w.Run(sched, nil)
	if release != nil {
		release()
		w.Run(sim.FIFO, nil)
	}
	noteRun(&r, w)
	mon.finish()
	if r.Verdict != core.Violated {
		s.outcome(&r, w, in, "c08")
	}
	if preSecrets != nil {
		leakScan(&r, w, preSecrets)
	}
	leakScan(&r, w, secretsOf(s, w, nil, true))
	r.NonTrivial = r.Obs["sends_checked"] > 0
	if r.Verdict == core.Violated {
		r.Witness = strings.Join(w.Trace(400), "\n")
	}
	if c.Kind == "flip" && r.Obs["flag_flips_checked"] == 0 && r.Verdict == core.Held {
		r.Inconcl("no message of type %s was delivered in this run", c.P.Str("flip"))
	}
	if c.Kind == "monitor" && c.P.Str("sched") == "random" {
		r.Sample = map[string]any{"case": c.ID, "deliveries_monitored": r.Obs["waitingfor_checked"], "sends_checked": r.Obs["sends_checked"], "first_events": w.Trace(8)}
	}
	return r
}

// c08Flip makes the first delivery of every message of type `typ` be preceded by a copy with the broadcast flag inverted.
func c08Flip(r *core.Result, w *sim.World, typ string) {
	flipped := map[string]bool{}
	w.Rewrite = func(w *sim.World, m *sim.Msg, to *sim.Node) ([]byte, bool, *tss.PartyID, bool) {
		k := m.Key() + ">" + to.Name
		if m.Short == typ && !flipped[k] {
			flipped[k] = true
			// queued before the genuine copy (FIFO scheduling delivers it first)
			w.Inject(&sim.Event{Kind: sim.EvDeliver, Node: to, Msg: m, Wire: m.Wire, Bcast: !m.Bcast, FromPID: m.From.PID, Tag: "flip"})
		}
		return m.Wire, m.Bcast, m.From.PID, false
	}
	var beforeRound, beforeSent int
	w.BeforeExec = append(w.BeforeExec, func(ev *sim.Event) {
		if ev.Tag == "flip" {
			beforeRound = roundOf(ev.Node)
			beforeSent = len(ev.Node.SentTypes)
		}
	})
	w.OnDelivered = append(w.OnDelivered, func(ev *sim.Event, ok bool, err *tss.Error) {
		if ev.Tag != "flip" {
			return
		}
		sp := sim.SpecOf(w.Proto, typ)
		n := ev.Node
		r.Count("flag_flips_checked", 1)
		if len(n.SentTypes) != beforeSent {
			r.Fail("flip:sent:"+typ, "%s sent %v in response to a %s delivered with the broadcast flag inverted", n.Name, n.SentTypes[beforeSent:], typ)
		}
		// the round this message belongs to must not be completed by it. (A party whose current round needs no input at
		// all - an old committee member in resharing round 1 - moves on at any call; that is not consuming the message.)
		if cur := roundOf(n); n.Started && beforeRound <= sp.Round && (cur > sp.Round || cur == 0) {
			r.Fail("flip:advanced:"+typ, "%s moved from round %d to %d (past round %d) on a %s delivered with the broadcast flag inverted", n.Name, beforeRound, cur, sp.Round, typ)
		}
		if len(n.Ended) > 0 {
			r.Fail("flip:finished:"+typ, "%s finished on a %s delivered with the broadcast flag inverted", n.Name, typ)
			return
		}
		if n.Started && roundOf(n) == sp.Round {
			still := false
			for _, pid := range n.Party.WaitingFor() {
				if pid.KeyInt().Cmp(ev.Msg.From.PID.KeyInt()) == 0 {
					still = true
				}
			}
			if !still {
				r.Fail("flip:not-awaited:"+typ, "%s no longer awaits %s after receiving its %s on the wrong channel kind", n.Name, ev.Msg.From.Name, typ)
			}
		}
	})
}

// c08FlipAfter hands every message of type `typ` over twice: the genuine copy, and directly after it (before anything else
// happens, provided the sender is no longer awaited) a copy with the broadcast flag inverted. The second copy must change nothing: no send, no round change, the same
// set of awaited peers; the run then has to complete like any other.
func c08FlipAfter(r *core.Result, w *sim.World, typ string) {
	busy := false
	sp := sim.SpecOf(w.Proto, typ)
	stored := map[string]*sim.Event{} // recipient|sender -> the genuine delivery of typ
	done := map[string]bool{}
	w.AfterStep = append(w.AfterStep, func(ev *sim.Event) {
		if busy || sp == nil || ev.Kind != sim.EvDeliver || ev.Tag != "" || ev.Msg == nil {
			return
		}
		n := ev.Node
		key := n.Name + "|" + ev.Msg.From.Name
		if ev.Msg.Short == typ {
			stored[key] = ev
		}
		g := stored[key]
		if g == nil || done[key] || !n.Started || len(n.Ended) > 0 || len(n.Errors) > 0 || roundOf(n) != sp.Round {
			return
		}
		waitSet := func() string {
			var ks []string
			for _, pid := range n.Party.WaitingFor() {
				ks = append(ks, pid.KeyInt().Text(16))
			}
			sort.Strings(ks)
			return strings.Join(ks, ",")
		}
		round0, sent0, wait0 := roundOf(n), len(n.SentTypes), waitSet()
		if strings.Contains(","+wait0+",", ","+g.Msg.From.PID.KeyInt().Text(16)+",") {
			// the sender is still awaited (the other message of a two-message round is missing): a wrong-channel copy now
			// replaces the stored genuine one, which only harms the sender itself (DESIGN 6.5); the window looked at here
			// is the one in which the sender's part of the round is complete and the round is still open
			return
		}
		done[key] = true
		busy = true
		w.Inject(&sim.Event{Kind: sim.EvDeliver, Node: n, Msg: g.Msg, Wire: g.Wire, Bcast: !g.Bcast, FromPID: g.FromPID, Tag: "flipdup"})
		w.Exec(len(w.Pending) - 1)
		busy = false
		r.Count("flag_flips_checked", 1)
		if len(n.SentTypes) != sent0 {
			r.Fail("flip-after:sent:"+typ, "%s sent %v in response to a second copy of %s delivered with the broadcast flag inverted", n.Name, n.SentTypes[sent0:], typ)
		}
		if cur := roundOf(n); cur != round0 {
			r.Fail("flip-after:round:"+typ, "%s moved from round %d to %d on a second copy of %s delivered with the broadcast flag inverted", n.Name, round0, cur, typ)
		} else if w1 := waitSet(); w1 != wait0 {
			r.Fail("flip-after:waiting:"+typ, "%s awaited {%s} once everything from %s had arrived, and awaits {%s} after a second copy of its %s with the broadcast flag inverted", n.Name, wait0, g.Msg.From.Name, w1, typ)
		}
	})
}

// c08FlipOnly replaces every delivery of a message of type `typ` by a copy with the broadcast flag inverted and keeps the
// genuine copies back. When the run is quiescent, no recipient may have got past the round that needs the message, and
// each one must still await every sender; the returned function then checks that and releases the genuine copies.
func c08FlipOnly(r *core.Result, w *sim.World, typ string, senderZeroOnly bool) func() {
	var genuine []*sim.Event
	w.Rewrite = func(w *sim.World, m *sim.Msg, to *sim.Node) ([]byte, bool, *tss.PartyID, bool) {
		if m.Short != typ || (senderZeroOnly && m.From.PID.Index != 0) {
			return m.Wire, m.Bcast, m.From.PID, false
		}
		w.Inject(&sim.Event{Kind: sim.EvDeliver, Node: to, Msg: m, Wire: m.Wire, Bcast: !m.Bcast, FromPID: m.From.PID, Tag: "flip"})
		genuine = append(genuine, &sim.Event{Kind: sim.EvDeliver, Node: to, Msg: m, Wire: m.Wire, Bcast: m.Bcast, FromPID: m.From.PID, Tag: "late"})
		return nil, false, nil, true
	}
	return func() {
		sp := sim.SpecOf(w.Proto, typ)
		for _, ev := range genuine {
			n := ev.Node
			r.Count("flag_flips_checked", 1)
			if len(n.Ended) > 0 {
				r.Fail("flip:finished:"+typ, "%s finished although every %s reached it only with the broadcast flag inverted", n.Name, typ)
				continue
			}
			cur := roundOf(n)
			if n.Started && (cur > sp.Round || cur == 0) {
				r.Fail("flip:advanced:"+typ, "%s is in round %d (past round %d) although every %s reached it only with the broadcast flag inverted", n.Name, cur, sp.Round, typ)
				continue
			}
			if n.Started && cur == sp.Round {
				still := false
				for _, pid := range n.Party.WaitingFor() {
					if pid.KeyInt().Cmp(ev.Msg.From.PID.KeyInt()) == 0 {
						still = true
					}
				}
				if !still {
					r.Fail("flip:not-awaited:"+typ, "%s does not await %s although its %s arrived only on the wrong channel kind", n.Name, ev.Msg.From.Name, typ)
				}
			}
		}
		w.Rewrite = nil
		for _, ev := range genuine {
			w.Inject(ev)
		}
	}
}
