#!/usr/bin/env python3
"""Writes seeded/<name>/meta.json from the table below and prints the DESIGN.md table."""
import json, os, re
ROOT=os.path.dirname(os.path.dirname(os.path.abspath(__file__)))
T=json.load(open(os.path.join(ROOT,'tools','seeded.json')))
rows=[]
for name,m in sorted(T.items()):
    d=os.path.join(ROOT,'seeded',name)
    if not os.path.isdir(d): continue
    log=''
    for fn in ('eval.log','eval_first.log'):  # eval_first.log: the evaluation before a check was strengthened (kept when there was one)
        if os.path.exists(os.path.join(d,fn)): log+=open(os.path.join(d,fn)).read()
    caught=sorted(set(re.findall(r'VIOLATION property=(C\d+)',log)))
    sigs=sorted(set(re.findall(r'sig="([^"]+)"',log)))[:6]
    meta={"name":name,"breaks_property":m["property"],"origin":"independent sub-agent given only the property text and a scratch worktree" + (" (round 2: it was also told the two round-1 changes for this property and asked for different ones)" if m.get("round")==2 else ""),
          "change":m["change"],"needs_to_manifest":m["needs"],
          "confirmed":"applied to a scratch worktree of /repo HEAD (tools/seed_eval.sh): builds; existing tests of the touched packages pass (agent also ran the full suite); demo fails with the change and passes without it; then our quick checks were run with VERIF_REPO_DIR pointing at the changed tree",
          "demo":m["demo"],"ran":m.get("ran","tools/seed_eval.sh"),"caught_by":caught or m.get("caught_by",[]),"signatures":sigs,"note":m.get("note","")}
    json.dump(meta,open(os.path.join(d,'meta.json'),'w'),indent=1)
    rows.append(f"| {name} | {m['property']} | {m['change'][:110]} | {', '.join(meta['caught_by']) or 'NOT CAUGHT'} | {m.get('note','')[:90]} |")
print("| seeded change | breaks | what it does | caught by (quick) | note |\n|---|---|---|---|---|")
print("\n".join(rows))
