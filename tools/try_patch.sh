#!/bin/bash
# tools/try_patch.sh <patch.diff> "<check[:only] ...>"   development aid: run the working-tree checks against a scratch worktree of /repo with one patch applied
export GOFLAGS=-mod=mod GOPROXY=off GOSUMDB=off GOTOOLCHAIN=local
WT=/tmp/tp_$$
git -C /repo worktree add -q "$WT" HEAD || exit 1
( cd "$WT" && git apply --3way "$1" ) || echo "PATCH DOES NOT APPLY"
cd /verif
for spec in $2; do
  c="${spec%%:*}"; ONLY=""
  if [ "$spec" != "$c" ]; then ONLY="--only ${spec#*:}"; fi
  echo "== $c $ONLY"
  VERIF_REPO_DIR="$WT" ./check $c quick $ONLY 2>&1 | grep -v "^WARNING" | grep "VIOLATION\|sig=\|seed=\|BROKEN\|BUILD" | cut -c1-300 | head -${TP_LINES:-8}
done
git -C /repo worktree remove --force "$WT"
