#!/bin/bash
# Runs every quick check against /repo's working tree (seed 1), which rewrites evidence/<id>.json, then validates.
cd "$(dirname "$0")/.."
fail=0
for c in C01 C02 C03 C04 C05 C06 C07 C08 C09 C10 C11 C12 C13 C14 C15 C16 C17 C18 C19 C20; do
  ./check $c quick > /tmp/regen_$c.log 2>&1; rc=$?
  grep -v "^WARNING" /tmp/regen_$c.log | grep "seed=\|VIOLATION\|BROKEN" | cut -c1-200
  [ $rc -ne 0 ] && { echo "!! $c exit $rc"; fail=1; }
done
python3-vt tools/validate.py || fail=1
exit $fail
