#!/bin/bash
# tools/seed_eval.sh <name> <patch.diff> <demo_file> <demo_dest_dir (relative to repo)> <go test -run pattern> "<checks to run>"
# Confirms a seeded change in a scratch worktree of /repo's HEAD and runs our quick checks against it.
# Writes /verif/seeded/<name>/{patch.diff,demo file,eval.log}; meta.json is written by hand afterwards.
set -u
export GOFLAGS=-mod=mod GOPROXY=off GOSUMDB=off GOTOOLCHAIN=local
NAME="$1"; PATCH="$2"; DEMO="$3"; DEST="$4"; RUN="$5"; CHECKS="$6"
WT=/tmp/se_$NAME
OUT=/verif/seeded/$NAME
mkdir -p "$OUT"
LOG="$OUT/eval.log"; : > "$LOG"
git -C /repo worktree remove --force "$WT" >/dev/null 2>&1
git -C /repo worktree add -q "$WT" HEAD || exit 1
cd "$WT"
echo "== demo on the unmodified tree (must PASS)" | tee -a "$LOG"
cp "$DEMO" "$DEST/"
go test -vet=off -count=1 -run "$RUN" "./$DEST/" 2>&1 | tail -5 | tee -a "$LOG"
rm -f "$DEST/$(basename "$DEMO")"
echo "== apply patch" | tee -a "$LOG"
if ! git apply --3way "$PATCH" 2>>"$LOG"; then echo "PATCH DOES NOT APPLY" | tee -a "$LOG"; fi
git diff HEAD > "$OUT/patch.diff"
go build ./... 2>&1 | tail -3 | tee -a "$LOG"
echo "== existing tests of the touched packages with the change (must pass)" | tee -a "$LOG"
PKGS=$(git diff HEAD --name-only | xargs -n1 dirname | sort -u | sed 's#^#./#')
go test -vet=off -count=1 -timeout 20m $PKGS 2>&1 | tail -6 | tee -a "$LOG"
echo "== demo with the change (must FAIL)" | tee -a "$LOG"
cp "$DEMO" "$DEST/"
go test -vet=off -count=1 -run "$RUN" "./$DEST/" 2>&1 | grep -v "^\s*$" | tail -8 | cut -c1-300 | tee -a "$LOG"
rm -f "$DEST/$(basename "$DEMO")"
cp "$DEMO" "$OUT/"
# the checks run from a snapshot of the committed /verif (the working tree may be mid-edit)
SNAP=/tmp/vsnap_$NAME
rm -rf "$SNAP"; mkdir -p "$SNAP"
git -C /verif archive HEAD | tar -x -C "$SNAP" --exclude=seeded --exclude=evidence
echo "== checks from /verif commit $(git -C /verif rev-parse --short HEAD)" | tee -a "$LOG"
cd "$SNAP"
for spec in $CHECKS; do
  c="${spec%%:*}"; ONLY=""
  if [ "$spec" != "$c" ]; then ONLY="--only ${spec#*:}"; fi   # C06:W4 = only the cases whose id contains W4
  echo "== our check $c quick $ONLY against the changed tree" | tee -a "$LOG"
  VERIF_REPO_DIR="$WT" ./check $c quick $ONLY 2>&1 | sed "s#$SNAP#/verif#g" | grep -v "^WARNING" | grep "VIOLATION\|sig=\|seed=\|KNOWN\|BROKEN\|BUILD" | cut -c1-260 | head -12 | tee -a "$LOG"
done
cd /verif
rm -rf "$SNAP"
git -C /repo worktree remove --force "$WT"
echo "== done $NAME" | tee -a "$LOG"
