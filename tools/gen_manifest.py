#!/usr/bin/env python3
"""Regenerates /verif/MANIFEST.json from the table below (single source of truth)."""
import json, os, subprocess
ROOT = os.path.dirname(os.path.dirname(os.path.abspath(__file__)))

# id -> (category, technique, level text, level note, design ref)
CHECKS = json.load(open(os.path.join(ROOT, "tools", "checks.json")))
NOT_APPLICABLE = json.load(open(os.path.join(ROOT, "tools", "not_applicable.json")))

hooks_commits = []
try:
    out = subprocess.run(["git", "-C", "/repo", "log", "--format=%H %s"], capture_output=True, text=True).stdout
    for ln in out.splitlines():
        h, s = ln.split(" ", 1)
        if s.startswith("verif-hook:"):
            hooks_commits.append(h)
except Exception:
    pass

m = {
    "version": 1,
    "setup_cmd": "./setup.sh",
    "hooks": {
        "guard": "verif",
        "enable": "go build -tags verif (the ./check script always builds the worker binary with -tags verif; C09 and C19 add -race)",
        "baseline_off_cmd": "cd /repo && GOFLAGS=-mod=mod go test -json -vet=off -count=1 -timeout 25m ./...",
        "source_commits": hooks_commits,
        "add_only": True,
    },
    "engines": [
        {"name": "vcheck", "path": "cmd/vcheck", "serves_properties": sorted(CHECKS.keys()),
         "kind_free_text": "Go driver + worker child processes running the real tss-lib code under generated workloads; monitors/oracles in checks/, deterministic network simulator in sim/, independent reference arithmetic in ref/"},
    ],
    "checks": [],
    "not_applicable": NOT_APPLICABLE,
    "notes": "Technique family: runtime monitoring. Every check rebuilds bin/vcheck from /repo's working tree (replace directive) with -tags verif before running. known_findings.json lists genuine defects (status known) and repaired ones (status fixed, suppress nothing).",
}
for cid in sorted(CHECKS.keys()):
    c = CHECKS[cid]
    m["checks"].append({
        "property_id": cid,
        "quick_cmd": f"./check {cid} quick",
        "thorough_cmd": f"./check {cid} thorough",
        "evidence_file": f"/verif/evidence/{cid}.json",
        "replay_cmd_template": f"./check {cid} --replay {{path}}",
        "engine": "vcheck",
        "level_claimed": {"category": c["category"], "text": c["text"], "design_ref": c["design_ref"]},
        "level_note": c["note"],
        "technique": c["technique"],
    })
json.dump(m, open(os.path.join(ROOT, "MANIFEST.json"), "w"), indent=1)
print("MANIFEST.json written with", len(m["checks"]), "checks,", len(NOT_APPLICABLE), "not_applicable")
