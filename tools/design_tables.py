#!/usr/bin/env python3
"""Regenerates the generated tables of DESIGN.md §6 (between the BEGIN/END markers) from known_findings.json and seeded/*/meta.json."""
import json, os, re, glob, subprocess
ROOT=os.path.dirname(os.path.dirname(os.path.abspath(__file__)))
kf=json.load(open(os.path.join(ROOT,'known_findings.json')))
def subj(c):
    try: return subprocess.check_output(['git','-C','/repo','log','-1','--format=%s',c],text=True).strip()
    except Exception: return ''
fixed={}
for e in kf:
    if e['status']=='fixed':
        fixed.setdefault(e['commit'],[]).append(e)
order=subprocess.check_output(['git','-C','/repo','log','--reverse','--format=%h %s'],text=True).splitlines()
rows=["| commit | subject | found by (property: signature) |","|---|---|---|"]
for line in order:
    h,s=line.split(' ',1)
    if not s.startswith('fix:'): continue
    es=fixed.get(h,[])
    rows.append(f"| `{h}` | {s[5:]} | "+"; ".join(f"{e['property']}: `{e['signature'][:70]}`" for e in es)+" |")
fix_tbl="\n".join(rows)
rows=["| property | signature | what fails |","|---|---|---|"]
for e in kf:
    if e['status']=='known':
        rows.append(f"| {e['property']} | `{e['signature']}` | {e['description']} |")
known_tbl="\n".join(rows)
rows=["| seeded change | breaks | what it does | needs | caught by (quick tier) | note |","|---|---|---|---|---|---|"]
for d in sorted(glob.glob(os.path.join(ROOT,'seeded','C*'))):
    mp=os.path.join(d,'meta.json')
    if not os.path.exists(mp): continue
    m=json.load(open(mp))
    rows.append(f"| {m['name']} | {m['breaks_property']} | {m['change']} | {m['needs_to_manifest']} | {', '.join(m['caught_by']) or '**not caught**'} | {m.get('note','')} |")
seed_tbl="\n".join(rows)
p=os.path.join(ROOT,'DESIGN.md')
t=open(p).read()
for name,tbl in (('fixes',fix_tbl),('known',known_tbl),('seeded',seed_tbl)):
    b,e=f"<!-- BEGIN:{name} -->",f"<!-- END:{name} -->"
    if b in t:
        t=t[:t.index(b)+len(b)]+"\n"+tbl+"\n"+t[t.index(e):]
open(p,'w').write(t)
print("tables regenerated")
