package ref

import (
	"crypto/ed25519"
	"crypto/rand"
	"math/big"
	"testing"
)

// Known-answer self tests for the reference code (run by setup.sh).

func TestSecpKnown(t *testing.T) {
	if !SecpOnCurve(SecpGx, SecpGy) {
		t.Fatal("G off curve")
	}
	if !SecpBaseMul(SecpN).Inf {
		t.Fatal("n*G != inf")
	}
	two := SecpBaseMul(big.NewInt(2))
	if two.X.Cmp(hexInt("C6047F9441ED7D6D3045406E95C07CD85C778E4B8CEF3CA7ABAC09B95C709EE5")) != 0 ||
		two.Y.Cmp(hexInt("1AE168FEA63DC339A3C58419466CEAEEF7F632653266D0E1236431A950CFE52A")) != 0 {
		t.Fatal("2G wrong")
	}
	three := SecpBaseMul(big.NewInt(3))
	if three.X.Cmp(hexInt("F9308A019258C31049344F85F89D5229B531C845836F99B08601F113BCE036F9")) != 0 {
		t.Fatal("3G wrong")
	}
	// sign/verify/recover round trip with own arithmetic
	for i := 0; i < 20; i++ {
		d, _ := rand.Int(rand.Reader, SecpN)
		k, _ := rand.Int(rand.Reader, SecpN)
		e, _ := rand.Int(rand.Reader, SecpN)
		if d.Sign() == 0 || k.Sign() == 0 {
			continue
		}
		Q := SecpBaseMul(d)
		R := SecpBaseMul(k)
		r := new(big.Int).Mod(R.X, SecpN)
		s := new(big.Int).Mul(r, d)
		s.Add(s, e)
		s.Mul(s, new(big.Int).ModInverse(k, SecpN))
		s.Mod(s, SecpN)
		if !ECDSAVerify(Q, e, r, s) {
			t.Fatal("verify failed")
		}
		recid := byte(R.Y.Bit(0))
		got, ok := ECDSARecover(e, r, s, recid)
		if !ok || !got.Eq(Q) {
			t.Fatal("recover failed")
		}
		if g2, ok := ECDSARecover(e, r, s, recid^1); ok && g2.Eq(Q) {
			t.Fatal("recover with wrong parity gave same key")
		}
	}
}

func TestEdKnown(t *testing.T) {
	if !EdOnCurve(EdBx, EdBy) {
		t.Fatal("B off curve")
	}
	if !EdIsId(EdBaseMul(EdL)) {
		t.Fatal("L*B != id")
	}
	tor := EdTorsion()
	seen := map[string]bool{}
	for _, p := range tor {
		if !EdOnCurve(p.X, p.Y) || !EdIsId(EdMul(big.NewInt(8), p)) {
			t.Fatal("bad torsion point")
		}
		seen[p.X.String()+","+p.Y.String()] = true
	}
	if len(seen) != 8 {
		t.Fatal("torsion not 8 distinct")
	}
	// cross-check encoding and scalar mult against stdlib ed25519 key generation
	for i := 0; i < 20; i++ {
		pub, priv, _ := ed25519.GenerateKey(rand.Reader)
		// private scalar from seed
		_ = priv
		var enc [32]byte
		copy(enc[:], pub)
		pt, ok := EdDecode(enc)
		if !ok || !EdOnCurve(pt.X, pt.Y) {
			t.Fatal("decode failed")
		}
		if EdEncode(pt) != enc {
			t.Fatal("encode mismatch")
		}
		if !EdIsId(EdMul(EdL, pt)) {
			t.Fatal("stdlib pub not in prime-order group")
		}
	}
}

func TestPaillierCRT(t *testing.T) {
	p := decInt("1000000007")
	q := decInt("998244353")
	n := new(big.Int).Mul(p, q)
	n2 := new(big.Int).Mul(n, n)
	g := new(big.Int).Add(n, big.NewInt(1))
	for _, mv := range []int64{0, 1, 123456789, 998244352} {
		m := big.NewInt(mv)
		r := big.NewInt(987654321)
		c := new(big.Int).Exp(g, m, n2)
		c.Mul(c, new(big.Int).Exp(r, n, n2))
		c.Mod(c, n2)
		if CRTDecrypt(c, p, q).Cmp(m) != 0 {
			t.Fatalf("crt decrypt wrong for %d", mv)
		}
	}
}

func TestBip32Vectors(t *testing.T) {
	n := 0
	for _, chain := range Bip32Chains {
		for i := 1; i < len(chain); i++ {
			if chain[i].Hardened {
				continue
			}
			par, err := ParseXPub(chain[i-1].XPub)
			if err != nil {
				t.Logf("vector %d parent not parseable (%v): skipped", i, err)
				continue
			}
			if par.String() != chain[i-1].XPub {
				t.Fatal("xpub re-encode mismatch")
			}
			if _, err := ParseXPub(chain[i].XPub); err != nil {
				t.Logf("vector %d child not parseable (%v): skipped", i, err)
				continue
			}
			ch, _, err := CKDPub(par, chain[i].Index)
			if err != nil {
				t.Fatal(err)
			}
			if ch.String() != chain[i].XPub {
				t.Fatalf("CKDpub mismatch on published vector:\n got %s\nwant %s", ch.String(), chain[i].XPub)
			}
			n++
		}
	}
	t.Logf("validated %d published non-hardened BIP32 steps", n)
	if n < 4 {
		t.Fatalf("only %d vectors validated", n)
	}
}
