package ref

import (
	"math/big"
)

// edwards25519: -x^2 + y^2 = 1 + d x^2 y^2 over F_p, p = 2^255-19.
var (
	EdP  = new(big.Int).Sub(new(big.Int).Lsh(big.NewInt(1), 255), big.NewInt(19))
	EdL  = new(big.Int).Add(new(big.Int).Lsh(big.NewInt(1), 252), decInt("27742317777372353535851937790883648493"))
	EdD  *big.Int
	EdBx = decInt("15112221349535400772501151409588531511454012693041857206046113283949847762202")
	EdBy = decInt("46316835694926478169428394003475163141307993866256225615783033603165251855960")
)

func init() {
	// d = -121665/121666
	inv := new(big.Int).ModInverse(big.NewInt(121666), EdP)
	EdD = new(big.Int).Mul(big.NewInt(-121665), inv)
	EdD.Mod(EdD, EdP)
}

func EdB() Pt  { return Pt{X: new(big.Int).Set(EdBx), Y: new(big.Int).Set(EdBy)} }
func EdId() Pt { return Pt{X: big.NewInt(0), Y: big.NewInt(1)} }

func EdOnCurve(x, y *big.Int) bool {
	if x == nil || y == nil || x.Sign() < 0 || y.Sign() < 0 || x.Cmp(EdP) >= 0 || y.Cmp(EdP) >= 0 {
		return false
	}
	x2 := new(big.Int).Mul(x, x)
	y2 := new(big.Int).Mul(y, y)
	l := new(big.Int).Sub(y2, x2)
	l.Mod(l, EdP)
	r := new(big.Int).Mul(x2, y2)
	r.Mod(r, EdP)
	r.Mul(r, EdD)
	r.Add(r, big.NewInt(1))
	r.Mod(r, EdP)
	return l.Cmp(r) == 0
}

func EdAdd(a, b Pt) Pt {
	p := EdP
	x1y2 := new(big.Int).Mul(a.X, b.Y)
	x2y1 := new(big.Int).Mul(b.X, a.Y)
	y1y2 := new(big.Int).Mul(a.Y, b.Y)
	x1x2 := new(big.Int).Mul(a.X, b.X)
	t := new(big.Int).Mul(x1x2, y1y2)
	t.Mod(t, p)
	t.Mul(t, EdD)
	t.Mod(t, p)
	dx := new(big.Int).Add(big.NewInt(1), t)
	dx.Mod(dx, p)
	dx.ModInverse(dx, p)
	dy := new(big.Int).Sub(big.NewInt(1), t)
	dy.Mod(dy, p)
	dy.ModInverse(dy, p)
	x3 := new(big.Int).Add(x1y2, x2y1)
	x3.Mul(x3, dx)
	x3.Mod(x3, p)
	y3 := new(big.Int).Add(y1y2, x1x2)
	y3.Mul(y3, dy)
	y3.Mod(y3, p)
	return Pt{X: x3, Y: y3}
}

func EdNeg(a Pt) Pt {
	return Pt{X: modp(new(big.Int).Neg(a.X), EdP), Y: new(big.Int).Set(a.Y)}
}

func EdMul(k *big.Int, pt Pt) Pt {
	if k.Sign() < 0 {
		return EdMul(new(big.Int).Neg(k), EdNeg(pt))
	}
	acc := EdId()
	for i := k.BitLen() - 1; i >= 0; i-- {
		acc = EdAdd(acc, acc)
		if k.Bit(i) == 1 {
			acc = EdAdd(acc, pt)
		}
	}
	return acc
}

func EdBaseMul(k *big.Int) Pt { return EdMul(k, EdB()) }

func EdIsId(a Pt) bool { return a.X.Sign() == 0 && a.Y.Cmp(big.NewInt(1)) == 0 }

// EdEncode is the RFC 8032 32-byte encoding: little-endian y, top bit = x mod 2.
func EdEncode(a Pt) [32]byte {
	var out [32]byte
	yb := a.Y.Bytes()
	for i := range yb {
		out[i] = yb[len(yb)-1-i]
	}
	if a.X.Bit(0) == 1 {
		out[31] |= 0x80
	}
	return out
}

// EdDecode decompresses an RFC 8032 encoding.
func EdDecode(b [32]byte) (Pt, bool) {
	sign := b[31]>>7 == 1
	b[31] &= 0x7f
	be := make([]byte, 32)
	for i := 0; i < 32; i++ {
		be[i] = b[31-i]
	}
	y := new(big.Int).SetBytes(be)
	if y.Cmp(EdP) >= 0 {
		return Pt{}, false
	}
	x, ok := EdRecoverX(y, sign)
	if !ok {
		return Pt{}, false
	}
	return Pt{X: x, Y: y}, true
}

func EdRecoverX(y *big.Int, odd bool) (*big.Int, bool) {
	p := EdP
	y2 := new(big.Int).Mul(y, y)
	num := new(big.Int).Sub(y2, big.NewInt(1))
	num.Mod(num, p)
	den := new(big.Int).Mul(EdD, y2)
	den.Add(den, big.NewInt(1))
	den.Mod(den, p)
	if den.Sign() == 0 {
		return nil, false
	}
	den.ModInverse(den, p)
	x2 := num.Mul(num, den)
	x2.Mod(x2, p)
	x := new(big.Int).ModSqrt(x2, p)
	if x == nil {
		return nil, false
	}
	if x.Sign() == 0 && odd {
		return nil, false
	}
	if (x.Bit(0) == 1) != odd {
		x.Sub(p, x)
		x.Mod(x, p)
	}
	return x, true
}

// EdTorsion returns the 8 points of the torsion subgroup (index k = k*T8 for a generator T8).
func EdTorsion() []Pt {
	for yv := int64(2); yv < 1000; yv++ {
		y := big.NewInt(yv)
		x, ok := EdRecoverX(y, false)
		if !ok {
			continue
		}
		t := EdMul(EdL, Pt{X: x, Y: y})
		t4 := EdMul(big.NewInt(4), t)
		if EdIsId(t4) {
			continue // order divides 4
		}
		out := make([]Pt, 8)
		acc := EdId()
		for k := 0; k < 8; k++ {
			out[k] = acc
			acc = EdAdd(acc, t)
		}
		return out
	}
	panic("no torsion generator found")
}
