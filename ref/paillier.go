package ref

import "math/big"

// CRTDecrypt decrypts a Paillier ciphertext with g = N+1 using the factors p, q only
// (Paillier 1999, section 7), independently of lambda/phi stored in a key struct.
func CRTDecrypt(c, p, q *big.Int) *big.Int {
	one := big.NewInt(1)
	n := new(big.Int).Mul(p, q)
	g := new(big.Int).Add(n, one)
	part := func(pr *big.Int) *big.Int {
		pr2 := new(big.Int).Mul(pr, pr)
		e := new(big.Int).Sub(pr, one)
		lp := func(u *big.Int) *big.Int {
			t := new(big.Int).Sub(u, one)
			return t.Div(t, pr)
		}
		cu := lp(new(big.Int).Exp(new(big.Int).Mod(c, pr2), e, pr2))
		gu := lp(new(big.Int).Exp(new(big.Int).Mod(g, pr2), e, pr2))
		h := new(big.Int).ModInverse(new(big.Int).Mod(gu, pr), pr)
		m := cu.Mul(cu, h)
		return m.Mod(m, pr)
	}
	mp, mq := part(p), part(q)
	// CRT combine
	pinv := new(big.Int).ModInverse(p, q)
	t := new(big.Int).Sub(mq, mp)
	t.Mul(t, pinv)
	t.Mod(t, q)
	t.Mul(t, p)
	t.Add(t, mp)
	return t.Mod(t, n)
}

// IsPrime: trial division by the primes below 2^11, then 40 Miller-Rabin rounds + Baillie-PSW (stdlib).
func IsPrime(v *big.Int) bool {
	if v.Sign() <= 0 {
		return false
	}
	if v.BitLen() <= 22 {
		n := v.Int64()
		if n < 2 {
			return false
		}
		for d := int64(2); d*d <= n; d++ {
			if n%d == 0 {
				return false
			}
		}
		return true
	}
	return v.ProbablyPrime(40)
}
