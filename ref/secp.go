// Package ref holds independent reference implementations used as oracles.
// Nothing in here imports tss-lib, btcec, dcrd or agl code: plain math/big
// affine arithmetic, slow and obvious on purpose.
package ref

import (
	"math/big"
)

func hexInt(s string) *big.Int {
	v, ok := new(big.Int).SetString(s, 16)
	if !ok {
		panic("bad hex constant")
	}
	return v
}

func decInt(s string) *big.Int {
	v, ok := new(big.Int).SetString(s, 10)
	if !ok {
		panic("bad dec constant")
	}
	return v
}

// Pt is an affine point; Inf marks the neutral element of a Weierstrass curve.
type Pt struct {
	X, Y *big.Int
	Inf  bool
}

func (p Pt) Eq(o Pt) bool {
	if p.Inf || o.Inf {
		return p.Inf == o.Inf
	}
	return p.X.Cmp(o.X) == 0 && p.Y.Cmp(o.Y) == 0
}

// ---- secp256k1: y^2 = x^3 + 7 over F_p ----

var (
	SecpP  = hexInt("FFFFFFFFFFFFFFFFFFFFFFFFFFFFFFFFFFFFFFFFFFFFFFFFFFFFFFFEFFFFFC2F")
	SecpN  = hexInt("FFFFFFFFFFFFFFFFFFFFFFFFFFFFFFFEBAAEDCE6AF48A03BBFD25E8CD0364141")
	SecpGx = hexInt("79BE667EF9DCBBAC55A06295CE870B07029BFCDB2DCE28D959F2815B16F81798")
	SecpGy = hexInt("483ADA7726A3C4655DA4FBFC0E1108A8FD17B448A68554199C47D08FFB10D4B8")
	seven  = big.NewInt(7)
)

func SecpG() Pt { return Pt{X: new(big.Int).Set(SecpGx), Y: new(big.Int).Set(SecpGy)} }

func modp(v *big.Int, p *big.Int) *big.Int {
	r := new(big.Int).Mod(v, p)
	return r
}

// SecpOnCurve demands canonical coordinates 0 <= x,y < p.
func SecpOnCurve(x, y *big.Int) bool {
	if x == nil || y == nil || x.Sign() < 0 || y.Sign() < 0 || x.Cmp(SecpP) >= 0 || y.Cmp(SecpP) >= 0 {
		return false
	}
	l := new(big.Int).Mul(y, y)
	l.Mod(l, SecpP)
	r := new(big.Int).Mul(x, x)
	r.Mul(r, x)
	r.Add(r, seven)
	r.Mod(r, SecpP)
	return l.Cmp(r) == 0
}

func SecpNeg(a Pt) Pt {
	if a.Inf {
		return a
	}
	return Pt{X: new(big.Int).Set(a.X), Y: modp(new(big.Int).Neg(a.Y), SecpP)}
}

func SecpAdd(a, b Pt) Pt {
	if a.Inf {
		return b
	}
	if b.Inf {
		return a
	}
	p := SecpP
	var lam *big.Int
	if a.X.Cmp(b.X) == 0 {
		if new(big.Int).Mod(new(big.Int).Add(a.Y, b.Y), p).Sign() == 0 {
			return Pt{Inf: true}
		}
		// doubling: lam = 3x^2 / 2y
		num := new(big.Int).Mul(a.X, a.X)
		num.Mul(num, big.NewInt(3))
		den := new(big.Int).Lsh(a.Y, 1)
		den.ModInverse(den, p)
		lam = num.Mul(num, den)
		lam.Mod(lam, p)
	} else {
		num := new(big.Int).Sub(b.Y, a.Y)
		den := new(big.Int).Sub(b.X, a.X)
		den.Mod(den, p)
		den.ModInverse(den, p)
		lam = num.Mul(num, den)
		lam.Mod(lam, p)
	}
	x3 := new(big.Int).Mul(lam, lam)
	x3.Sub(x3, a.X)
	x3.Sub(x3, b.X)
	x3.Mod(x3, p)
	y3 := new(big.Int).Sub(a.X, x3)
	y3.Mul(y3, lam)
	y3.Sub(y3, a.Y)
	y3.Mod(y3, p)
	return Pt{X: x3, Y: y3}
}

// SecpMul computes k*P for any non-negative k (no reduction of k needed).
func SecpMul(k *big.Int, p Pt) Pt {
	if k.Sign() < 0 {
		return SecpMul(new(big.Int).Neg(k), SecpNeg(p))
	}
	acc := Pt{Inf: true}
	for i := k.BitLen() - 1; i >= 0; i-- {
		acc = SecpAdd(acc, acc)
		if k.Bit(i) == 1 {
			acc = SecpAdd(acc, p)
		}
	}
	return acc
}

func SecpBaseMul(k *big.Int) Pt { return SecpMul(k, SecpG()) }

// SecpLiftX returns the point with the given x and y parity, if any.
func SecpLiftX(x *big.Int, odd bool) (Pt, bool) {
	if x.Sign() < 0 || x.Cmp(SecpP) >= 0 {
		return Pt{}, false
	}
	r := new(big.Int).Mul(x, x)
	r.Mul(r, x)
	r.Add(r, seven)
	r.Mod(r, SecpP)
	y := new(big.Int).ModSqrt(r, SecpP)
	if y == nil {
		return Pt{}, false
	}
	if (y.Bit(0) == 1) != odd {
		y.Sub(SecpP, y)
	}
	return Pt{X: new(big.Int).Set(x), Y: y}, true
}

// ECDSAVerify is textbook ECDSA verification over secp256k1 with e the digest as an integer.
func ECDSAVerify(pub Pt, e, r, s *big.Int) bool {
	n := SecpN
	if pub.Inf || !SecpOnCurve(pub.X, pub.Y) {
		return false
	}
	if r.Sign() <= 0 || s.Sign() <= 0 || r.Cmp(n) >= 0 || s.Cmp(n) >= 0 {
		return false
	}
	w := new(big.Int).ModInverse(s, n)
	u1 := new(big.Int).Mul(e, w)
	u1.Mod(u1, n)
	u2 := new(big.Int).Mul(r, w)
	u2.Mod(u2, n)
	pt := SecpAdd(SecpBaseMul(u1), SecpMul(u2, pub))
	if pt.Inf {
		return false
	}
	return new(big.Int).Mod(pt.X, n).Cmp(r) == 0
}

// ECDSARecover recovers the public key from (e, r, s, recid) the way Ethereum/Bitcoin do:
// bit0 = parity of R.y, bit1 = R.x overflowed the group order.
func ECDSARecover(e, r, s *big.Int, recid byte) (Pt, bool) {
	n := SecpN
	if recid > 3 || r.Sign() <= 0 || s.Sign() <= 0 || r.Cmp(n) >= 0 || s.Cmp(n) >= 0 {
		return Pt{}, false
	}
	x := new(big.Int).Set(r)
	if recid&2 != 0 {
		x.Add(x, n)
	}
	R, ok := SecpLiftX(x, recid&1 == 1)
	if !ok {
		return Pt{}, false
	}
	rinv := new(big.Int).ModInverse(r, n)
	sR := SecpMul(s, R)
	eG := SecpBaseMul(new(big.Int).Mod(e, n))
	q := SecpMul(rinv, SecpAdd(sR, SecpNeg(eG)))
	if q.Inf {
		return Pt{}, false
	}
	return q, true
}

// Lagrange coefficient at 0 for id i among ids (all mod q, pairwise distinct, non-zero).
func LagrangeAt(ids []*big.Int, i int, at *big.Int, q *big.Int) *big.Int {
	num := big.NewInt(1)
	den := big.NewInt(1)
	for j := range ids {
		if j == i {
			continue
		}
		a := new(big.Int).Sub(at, ids[j])
		num.Mul(num, a)
		num.Mod(num, q)
		b := new(big.Int).Sub(ids[i], ids[j])
		den.Mul(den, b)
		den.Mod(den, q)
	}
	den.ModInverse(den, q)
	num.Mul(num, den)
	return num.Mod(num, q)
}

// InterpolateAt interpolates the scalar polynomial through (ids[k], ys[k]) at x = at.
func InterpolateAt(ids, ys []*big.Int, at, q *big.Int) *big.Int {
	acc := new(big.Int)
	for i := range ids {
		l := LagrangeAt(ids, i, at, q)
		l.Mul(l, ys[i])
		acc.Add(acc, l)
		acc.Mod(acc, q)
	}
	return acc
}
