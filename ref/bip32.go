package ref

import (
	"bytes"
	"crypto/hmac"
	"crypto/sha256"
	"crypto/sha512"
	"encoding/binary"
	"errors"
	"math/big"

	"golang.org/x/crypto/ripemd160"
)

const b58alphabet = "123456789ABCDEFGHJKLMNPQRSTUVWXYZabcdefghijkmnopqrstuvwxyz"

func B58Encode(in []byte) string {
	zeros := 0
	for zeros < len(in) && in[zeros] == 0 {
		zeros++
	}
	v := new(big.Int).SetBytes(in)
	radix := big.NewInt(58)
	mod := new(big.Int)
	var out []byte
	for v.Sign() > 0 {
		v.DivMod(v, radix, mod)
		out = append(out, b58alphabet[mod.Int64()])
	}
	for i := 0; i < zeros; i++ {
		out = append(out, '1')
	}
	for i, j := 0, len(out)-1; i < j; i, j = i+1, j-1 {
		out[i], out[j] = out[j], out[i]
	}
	return string(out)
}

func B58Decode(s string) ([]byte, bool) {
	v := new(big.Int)
	radix := big.NewInt(58)
	zeros := 0
	lead := true
	for _, c := range []byte(s) {
		idx := bytes.IndexByte([]byte(b58alphabet), c)
		if idx < 0 {
			return nil, false
		}
		if lead && c == '1' {
			zeros++
		} else {
			lead = false
		}
		v.Mul(v, radix)
		v.Add(v, big.NewInt(int64(idx)))
	}
	b := v.Bytes()
	return append(make([]byte, zeros), b...), true
}

func Hash160(b []byte) []byte {
	h := sha256.Sum256(b)
	r := ripemd160.New()
	r.Write(h[:])
	return r.Sum(nil)
}

func dsha(b []byte) []byte {
	a := sha256.Sum256(b)
	c := sha256.Sum256(a[:])
	return c[:]
}

// SerP is the 33-byte compressed SEC1 encoding.
func SerP(p Pt) []byte {
	out := make([]byte, 33)
	out[0] = 2
	if p.Y.Bit(0) == 1 {
		out[0] = 3
	}
	p.X.FillBytes(out[1:])
	return out
}

func ParseP(b []byte) (Pt, bool) {
	if len(b) != 33 || (b[0] != 2 && b[0] != 3) {
		return Pt{}, false
	}
	return SecpLiftX(new(big.Int).SetBytes(b[1:]), b[0] == 3)
}

type XPub struct {
	Version  [4]byte
	Depth    byte
	ParentFP [4]byte
	Index    uint32
	Chain    [32]byte
	Key      Pt
}

func (k *XPub) String() string {
	buf := make([]byte, 0, 82)
	buf = append(buf, k.Version[:]...)
	buf = append(buf, k.Depth)
	buf = append(buf, k.ParentFP[:]...)
	var ib [4]byte
	binary.BigEndian.PutUint32(ib[:], k.Index)
	buf = append(buf, ib[:]...)
	buf = append(buf, k.Chain[:]...)
	buf = append(buf, SerP(k.Key)...)
	buf = append(buf, dsha(buf)[:4]...)
	return B58Encode(buf)
}

func ParseXPub(s string) (*XPub, error) {
	raw, ok := B58Decode(s)
	if !ok || len(raw) != 82 {
		return nil, errors.New("bad length or alphabet")
	}
	if !bytes.Equal(dsha(raw[:78])[:4], raw[78:]) {
		return nil, errors.New("bad checksum")
	}
	k := &XPub{}
	copy(k.Version[:], raw[0:4])
	k.Depth = raw[4]
	copy(k.ParentFP[:], raw[5:9])
	k.Index = binary.BigEndian.Uint32(raw[9:13])
	copy(k.Chain[:], raw[13:45])
	p, ok := ParseP(raw[45:78])
	if !ok {
		return nil, errors.New("bad key")
	}
	k.Key = p
	return k, nil
}

// CKDPub is BIP32 public parent key -> public child key. Returns the child and I_L.
func CKDPub(par *XPub, index uint32) (*XPub, *big.Int, error) {
	if index >= 0x80000000 {
		return nil, nil, errors.New("hardened")
	}
	if par.Depth == 255 {
		return nil, nil, errors.New("depth")
	}
	if par.Key.Inf || !SecpOnCurve(par.Key.X, par.Key.Y) {
		return nil, nil, errors.New("parent not on curve")
	}
	data := append(SerP(par.Key), 0, 0, 0, 0)
	binary.BigEndian.PutUint32(data[33:], index)
	mac := hmac.New(sha512.New, par.Chain[:])
	mac.Write(data)
	I := mac.Sum(nil)
	il := new(big.Int).SetBytes(I[:32])
	if il.Cmp(SecpN) >= 0 {
		return nil, nil, errors.New("IL >= n")
	}
	child := SecpAdd(SecpBaseMul(il), par.Key)
	if child.Inf {
		return nil, nil, errors.New("child at infinity")
	}
	out := &XPub{Version: par.Version, Depth: par.Depth + 1, Index: index, Key: child}
	copy(out.Chain[:], I[32:])
	copy(out.ParentFP[:], Hash160(SerP(par.Key))[:4])
	return out, il, nil
}

// Bip32Chains: the published BIP32 test vectors 1 and 2 (xpub chain); each is used only if the
// reference CKDpub reproduces it from its parent string (checksummed), so a typo cannot cause a false alarm.
var Bip32Chains = [][]struct {
	XPub     string
	Index    uint32 // index leading from the previous entry to this one
	Hardened bool
}{
	{
		{"xpub661MyMwAqRbcFtXgS5sYJABqqG9YLmC4Q1Rdap9gSE8NqtwybGhePY2gZ29ESFjqJoCu1Rupje8YtGqsefD265TMg7usUDFdp6W1EGMcet8", 0, false},
		{"xpub68Gmy5EdvgibQVfPdqkBBCHxA5htiqg55crXYuXoQRKfDBFA1WEjWgP6LHhwBZeNK1VTsfTFUHCdrfp1bgwQ9xv5ski8PX9rL2dZXvgGDnw", 0, true},
		{"xpub6ASuArnXKPbfEwhqN6e3mwBcDTgzisQN1wXN9BJcM47sSikHjJf3UFHKkNAWbWMiGj7Wf5uMash7SyYq527Hqck2AxYysAA7xmALppuCkwQ", 1, false},
		{"xpub6D4BDPcP2GT577Vvch3R8wDkScZWzQzMMUm3PWbmWvVJrZwQY4VUNgqFJPMM3No2dFDFGTsxxpG5uJh7n7epu4trkrX7x7DogT5Uv6fcLW5", 2, true},
		{"xpub6FHa3pjLCk84BayeJxFW2SP4XRrFd1JYnxeLeU8EqN3vDfZmbqBqaGJAyiLjTAwm6ZLRQUMv1ZACTj37sR62cfN7fe5JnJ7dh8zL4fiyLHV", 2, false},
		{"xpub6H1LXWLaKsWFhvm6RVpEL9P4KfRZSW7abD2ttkWP3SSQvnyA8FSVqNTEcYFgJS2UaFcxupHiYkro49S8yGasTvXEYBVPamhGW6cFJodrTHy", 1000000000, false},
	},
	{
		{"xpub661MyMwAqRbcFW31YEwpkMuc5THy2PSt5bDMsktWQcFF8syAmRUapSCGu8ED9W6oDMSgv6Zz8idoc4a6mr8BDzTJY47LJhkJ8UB7WEGuduB", 0, false},
		{"xpub69H7F5d8KSRgmmdJg2KhpAK8SR3DjMwAdkxj3ZuxV27CprR9LgpeyGmXUbC6wb7ERfvrnKZjXoUmmDznezpbZb7ap6r1D3tgFxHmwMkQTPH", 0, false},
		{"xpub6ASAVgeehLbnwdqV6UKMHVzgqAG8Gr6riv3Fxxpj8ksbH9ebxaEyBLZ85ySDhKiLDBrQSARLq1uNRts8RuJiHjaDMBU4Zn9h8LZNnBC5y4a", 2147483647, true},
		{"xpub6DF8uhdarytz3FWdA8TvFSvvAh8dP3283MY7p2V4SeE2wyWmG5mg5EwVvmdMVCQcoNJxGoWaU9DCWh89LojfZ537wTfunKau47EL2dhHKon", 1, false},
		{"xpub6ERApfZwUNrhLCkDtcHTcxd75RbzS1ed54G1LkBUHQVHQKqhMkhgbmJbZRkrgZw4koxb5JaHWkY4ALHY2grBGRjaDMzQLcgJvLJuZZvRcEL", 2147483646, true},
		{"xpub6FnCn6nSzZAw5Tw7cgR9bi15UV96gLZhjDstkXXxvCLsUXBGXPdSnLFbdpq8p9HmGsApME5hQTZ3emM2rnY5agb9rXpVGyy3bdW6EEgAtqt", 2, false},
	},
}
