// vcheck: driver and worker binary for the runtime-monitoring checks.
//
//	vcheck run <Cxx> <quick|thorough> [--replay file] [--only substr]
//	vcheck -worker <Cxx>            (internal)
//	vcheck list
package main

import (
	"fmt"
	"os"
	"path/filepath"
	"strconv"

	_ "verif/checks"
	"verif/core"
)

func main() {
	if len(os.Args) >= 3 && os.Args[1] == "-worker" {
		core.WorkerMain(os.Args[2])
		return
	}
	if len(os.Args) >= 2 && os.Args[1] == "list" {
		for _, id := range core.IDs() {
			fmt.Println(id)
		}
		return
	}
	if len(os.Args) >= 2 && os.Args[1] == "gencheck" {
		// every generator must produce unique, non-empty case ids for both tiers at several seeds
		bad := 0
		for _, id := range core.IDs() {
			chk := core.Lookup(id)
			for _, tier := range []string{"quick", "thorough"} {
				for _, seed := range []int64{1, 2, 3, 7, 11} {
					seen := map[string]bool{}
					cs := chk.Gen(tier, seed)
					for _, c := range cs {
						if c.ID == "" || seen[c.ID] {
							fmt.Printf("gencheck: %s %s seed=%d: duplicate or empty case id %q\n", id, tier, seed, c.ID)
							bad++
						}
						seen[c.ID] = true
					}
					if len(cs) == 0 {
						fmt.Printf("gencheck: %s %s seed=%d: no cases\n", id, tier, seed)
						bad++
					}
					if seed == 1 {
						fmt.Printf("%s %-8s %5d cases\n", id, tier, len(cs))
					}
				}
			}
		}
		if bad > 0 {
			os.Exit(2)
		}
		return
	}
	if len(os.Args) < 4 || os.Args[1] != "run" {
		fmt.Println("usage: vcheck run <Cxx> <quick|thorough> [--replay file] [--only substr]")
		os.Exit(2)
	}
	self, _ := os.Executable()
	root := os.Getenv("VERIF_ROOT")
	if root == "" {
		root = filepath.Dir(filepath.Dir(self))
	}
	repo := os.Getenv("VERIF_REPO_DIR")
	if repo == "" {
		repo = "/repo"
	}
	seed := int64(1)
	if s := os.Getenv("VERIF_SEED"); s != "" {
		if v, err := strconv.ParseInt(s, 10, 64); err == nil {
			seed = v
		}
	}
	o := core.Options{Bin: self, ID: os.Args[2], Tier: os.Args[3], Seed: seed, Root: root, Repo: repo}
	for i := 4; i < len(os.Args); i++ {
		switch os.Args[i] {
		case "--replay":
			if i+1 < len(os.Args) {
				o.ReplayOf = os.Args[i+1]
				i++
			}
		case "--only":
			if i+1 < len(os.Args) {
				o.OnlyCases = os.Args[i+1]
				i++
			}
		}
	}
	os.Exit(core.RunCheck(o))
}
